#!/usr/bin/env python3
"""tools/replays.py list <ID> | keep <ID> <file>...   (keep: delete every other replay of that property)"""
import json, os, sys
def main():
    cmd, pid = sys.argv[1], sys.argv[2]
    d = f"/verif/replays/{pid}"
    files = sorted(os.listdir(d)) if os.path.isdir(d) else []
    if cmd == "list":
        for f in files:
            r = json.load(open(os.path.join(d, f)))
            c = r["case"]
            src = c.get("src_q") or c.get("src") or json.dumps(c)[:200]
            print(f, r["kind"], src[:110], "=>", r["message"].split("\n")[0][-160:])
    elif cmd == "keep":
        keep = set(sys.argv[3:])
        for f in files:
            if f not in keep:
                os.remove(os.path.join(d, f))
main()

#!/bin/bash
# tools/allquick.sh [seed...] : every quick check at each given VERIF_SEED (default 1); prints one line per check
cd /verif
for seed in "${@:-1}"; do
  for i in 01 02 03 04 05 06 07 08 09 10 11 12 13 14 15 16; do
    out=$(VERIF_SEED=$seed ./check C$i quick 2>&1); rc=$?
    echo "seed=$seed C$i rc=$rc $(echo "$out" | grep -E '^OK|^VIOLATION|INCONCLUSIVE' | head -2 | tr '\n' ' ')"
  done
done

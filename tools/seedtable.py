#!/usr/bin/env python3
"""Prints the markdown table of planted changes from /verif/seeded/*/meta.json."""
import glob, json, os

rows = []
for d in sorted(glob.glob("/verif/seeded/*")):
    m = json.load(open(os.path.join(d, "meta.json")))
    name = os.path.basename(d)
    summary = (m.get("summary") or "").replace("|", "\\|").replace("\n", " ")
    if len(summary) > 230:
        summary = summary[:227] + "..."
    needs = (m.get("needs_to_manifest") or "").replace("|", "\\|").replace("\n", " ")
    if len(needs) > 160:
        needs = needs[:157] + "..."
    caught = m.get("caught_by") or []
    own = m["property"] in caught
    others = [c for c in caught if c != m["property"]]
    rows.append((name, m["property"], summary, needs, "yes" if own else "**no**", ", ".join(others) or "-"))

print("| seed | property | change | needs | caught by its own check | also caught by |")
print("|---|---|---|---|---|---|")
for r in rows:
    print("| " + " | ".join(r) + " |")
print()
n = len(rows)
own = sum(1 for r in rows if r[4] == "yes")
anyc = sum(1 for r in rows if r[4] == "yes" or r[5] != "-")
print(f"{n} confirmed planted changes; {own} caught by the check of the property they were written against, {anyc} by at least one check (quick tier).")

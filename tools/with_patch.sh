#!/bin/bash
# usage: tools/with_patch.sh <patch.diff> <command...>
# Applies a patch to /repo's working tree, runs the command, and always restores /repo.
set -u
PATCH=$(realpath "$1"); shift
if ! git -C /repo diff --quiet; then echo "with_patch: /repo working tree is dirty, refusing" >&2; exit 3; fi
trap 'git -C /repo checkout -- . >/dev/null 2>&1' EXIT
git -C /repo apply "$PATCH" || { echo "with_patch: patch does not apply" >&2; exit 3; }
"$@"
rc=$?
git -C /repo checkout -- .
exit $rc

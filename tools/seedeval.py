#!/usr/bin/env python3
"""tools/seedeval.py <ID> <k> [checks...]

Confirms a planted change delivered by a sub-agent in /tmp/wt/<ID>/SEED/ and
runs the checks against it, all in a scratch worktree of /repo (never in /repo):

  1. fresh worktree of /repo HEAD under /tmp/ev/<ID>-<k>
  2. demo passes on the clean tree
  3. patch applies, project builds, the existing suite passes
  4. demo fails with the patch
  5. the listed checks (default: all sixteen, quick tier) are run with
     VERIF_REPO pointing at the patched worktree

Writes /tmp/ev/results/<ID>-<k>.json and, when 1-4 hold, copies patch, demo and
a meta.json to /verif/seeded/<ID>-<k>/. The worktree is removed at the end.
"""
import json, os, shutil, subprocess, sys, time

ENV = dict(os.environ, GOFLAGS="-mod=mod", GOPROXY="off", GOSUMDB="off", GOTOOLCHAIN="local")
ALL = ["C%02d" % i for i in range(1, 17)]


def sh(cmd, cwd, timeout=900, env=None):
    try:
        p = subprocess.run(cmd, cwd=cwd, shell=True, env=env or ENV, capture_output=True, text=True, timeout=timeout, errors="replace")
        return p.returncode, (p.stdout + p.stderr)
    except subprocess.TimeoutExpired as e:
        return 124, "TIMEOUT\n" + str(e.stdout or "")[-2000:]


def main():
    pid, k = sys.argv[1], sys.argv[2]
    checks = sys.argv[3:] or ALL
    base = os.environ.get("SEED_BASE", "/tmp/wt")
    tag = os.environ.get("SEED_TAG", "")
    seed = f"{base}/{pid}/SEED"
    patch = f"{seed}/patch{k}.diff"
    meta = json.load(open(f"{seed}/meta{k}.json"))
    name = f"{pid}-{tag}{k}"
    wt = f"/tmp/ev/{name}"
    res = {"id": name, "property": pid, "meta": meta, "confirmed": False, "checks": {}}
    os.makedirs("/tmp/ev/results", exist_ok=True)
    subprocess.run(f"git -C /repo worktree remove --force {wt}", shell=True, capture_output=True)
    shutil.rmtree(wt, ignore_errors=True)
    rc, out = sh(f"git -C /repo worktree add --detach {wt} HEAD", "/")
    if rc != 0:
        print("worktree failed", out)
        return 2
    try:
        # demo_dir is free text in the sub-agents' metas: take the package it names
        dd = meta.get("demo_dir", ".").strip().lower()
        if dd.startswith("cmd/pql") or dd.startswith("./cmd/pql") or "cmd/pql" in dd.split(" ")[0]:
            demo_dir = os.path.join(wt, "cmd/pql")
        elif dd.startswith("parser") or dd.startswith("./parser"):
            demo_dir = os.path.join(wt, "parser")
        else:
            demo_dir = wt
        # the commands may refer to SEED/: provide a copy (untracked)
        shutil.copytree(seed, os.path.join(wt, "SEED"), ignore=shutil.ignore_patterns("PROMPT.txt", "PROPERTY.txt"))
        demo_cmd = meta.get("demo_cmd", "").replace(f"{base}/{pid}", wt)
        demos = [f for f in os.listdir(seed) if f.startswith(f"demo{k}")]
        os.makedirs(demo_dir, exist_ok=True)

        def place():
            for f in demos:
                shutil.copy(os.path.join(seed, f), os.path.join(demo_dir, f))

        def unplace():
            for f in demos:
                q = os.path.join(demo_dir, f)
                if os.path.exists(q):
                    os.remove(q)

        place()
        rc_clean, out_clean = sh(demo_cmd, wt, timeout=600)
        unplace()
        res["demo_clean_rc"] = rc_clean
        rc, out = sh(f"git apply {patch}", wt)
        if rc != 0:
            # the tree may have moved on since the change was written (a later fix: commit)
            rc, out = sh(f"git apply --3way {patch} && git reset -q", wt)
        res["patch_applies"] = rc == 0
        if rc != 0:
            res["error"] = "patch does not apply: " + out[-500:]
        else:
            rc_b, out_b = sh("go build ./... ", wt)
            rc_s, out_s = sh("go test -vet=off -count=1 . ./parser/... ./cmd/...", wt, timeout=900)
            res["builds"] = rc_b == 0
            res["suite_passes"] = rc_s == 0
            place()
            rc_mut, out_mut = sh(demo_cmd, wt, timeout=600)
            unplace()
            res["demo_mutant_rc"] = rc_mut
            res["demo_mutant_tail"] = out_mut[-600:]
            # some demo commands end in a clean-up step that hides the test's exit
            # status: also look at go test's own verdict lines
            def failed(rc, out):
                return rc != 0 or "--- FAIL" in out or "\nFAIL" in out or "panic:" in out

            res["confirmed"] = not failed(rc_clean, out_clean) and rc_b == 0 and rc_s == 0 and failed(rc_mut, out_mut)
            if not res["confirmed"]:
                res["suite_tail"] = out_s[-400:]
                res["demo_clean_tail"] = out_clean[-400:]
            shutil.rmtree(os.path.join(wt, "SEED"), ignore_errors=True)
            sh("git status --short", wt)
            # run the checks against the patched worktree
            for c in checks:
                t0 = time.time()
                env = dict(ENV, VERIF_REPO=wt, VERIF_ALT_OUT=f"/tmp/ev/out/{name}")
                rc_c, out_c = sh(f"/verif/check {c} quick", "/verif", timeout=1500, env=env)
                verdict = {0: "pass", 1: "VIOLATION", 2: "inconclusive"}.get(rc_c, f"rc={rc_c}")
                first = ""
                for line in out_c.splitlines():
                    if "VIOLATION-CANDIDATE" in line:
                        first = line.strip()[:300]
                        break
                res["checks"][c] = {"verdict": verdict, "wall_s": round(time.time() - t0, 1), "first": first}
                print(f"  {name} {c}: {verdict} {first[:160]}", flush=True)
    finally:
        subprocess.run(f"git -C /repo worktree remove --force {wt}", shell=True, capture_output=True)
        shutil.rmtree(wt, ignore_errors=True)
    json.dump(res, open(f"/tmp/ev/results/{name}.json", "w"), indent=1)
    caught = [c for c, v in res["checks"].items() if v["verdict"] == "VIOLATION"]
    print(f"{name}: confirmed={res['confirmed']} caught_by={caught} own_check={res['checks'].get(pid, {}).get('verdict')}")
    if res["confirmed"]:
        dst = f"/verif/seeded/{name}"
        os.makedirs(dst, exist_ok=True)
        shutil.copy(patch, f"{dst}/patch.diff")
        for f in demos:
            shutil.copy(os.path.join(seed, f), os.path.join(dst, f))
        json.dump({
            "property": pid,
            "summary": meta.get("summary"),
            "mechanism": meta.get("mechanism"),
            "needs_to_manifest": meta.get("needs"),
            "example_input": meta.get("example_input"),
            "demo_dir": meta.get("demo_dir"),
            "demo_cmd": meta.get("demo_cmd"),
            "confirmation": "in a scratch worktree of /repo HEAD: demo passes on the clean tree; patch applies; go build and `go test -vet=off -count=1 ./...` pass with the patch; demo fails with the patch",
            "checks_quick_tier": {c: v["verdict"] for c, v in res["checks"].items()},
            "caught_by": caught,
        }, open(f"{dst}/meta.json", "w"), indent=1)
    return 0


if __name__ == "__main__":
    sys.exit(main())

package gen

import (
	"fmt"
	"sort"

	"pgregory.net/rapid"

	"verif/harness/prim"
)

// Type is the static type of a column in the well-typed generator.
type Type int

const (
	TInt Type = iota
	TStr
	TBool
)

// TCol is a column of the schema threaded through a generated pipeline.
type TCol struct {
	Name string
	T    Type
	// Unusable: cannot be referenced by later operators (duplicated by a join,
	// or its name is derived from expression text).
	Unusable bool
}

// Schema is an ordered list of columns.
type Schema []TCol

// Binding is a let binding or parameter visible to generated expressions.
type Binding struct {
	Name string
	T    Type
}

// TEnv is the context of the well-typed generator.
type TEnv struct {
	Base       map[string]Schema // base tables
	JoinTables []string          // tables still available as right-hand sides
	Named      map[string]Schema // results bound by `as`
	Bindings   []Binding         // lets / parameters in scope
	// UseBindings: probability control (0 = never, n = one leaf in n).
	UseBindings int
	// BindingPositions counts uses by position for statistics.
	Uses map[string]int
	// RepeatOps lets TypedSequence write a schema-preserving operator twice.
	RepeatOps bool
	// NoRenameReuse disables project's renaming onto existing column names.
	NoRenameReuse bool
	// ForceQuote: column names that must be written in backticks because an
	// unquoted identifier of that name would denote a binding.
	ForceQuote map[string]bool
}

func (env *TEnv) hasBinding(name string) bool {
	if env == nil {
		return false
	}
	for _, b := range env.Bindings {
		if b.Name == name {
			return true
		}
	}
	return false
}

// id spells a column name, quoting it when a binding shadows it.
func (env *TEnv) id(name string) Ident {
	id := ColIdent(name)
	if env != nil && env.ForceQuote[name] {
		id.Quoted = true
	}
	return id
}

// plain returns the reference function for ordinary column references.
func (env *TEnv) plain() refFn {
	return func(c TCol) Expr { return &QIdent{Parts: []Ident{env.id(c.Name)}} }
}

func (s Schema) usable(t Type) []TCol {
	var out []TCol
	for _, c := range s {
		if c.T == t && !c.Unusable {
			out = append(out, c)
		}
	}
	return out
}

func (s Schema) anyUsable() []TCol {
	var out []TCol
	for _, c := range s {
		if !c.Unusable && c.T != TBool {
			out = append(out, c)
		}
	}
	return out
}

// NeedsQuote reports whether a column name must be written in backticks.
func NeedsQuote(n string) bool {
	if n == "" {
		return true
	}
	for i := 0; i < len(n); i++ {
		c := n[i]
		if !(c == '_' || c >= 'a' && c <= 'z' || c >= 'A' && c <= 'Z' || i > 0 && c >= '0' && c <= '9') {
			return true
		}
	}
	switch n {
	case "and", "or", "in", "by", "true", "false", "null", "asc", "desc", "nulls", "first", "last":
		return true
	}
	return false
}

// ColIdent spells a column name as an identifier.
func ColIdent(name string) Ident { return Ident{Name: name, Quoted: NeedsQuote(name)} }

// ColRef is a reference to a column.
func ColRef(name string) *QIdent { return &QIdent{Parts: []Ident{ColIdent(name)}} }

func sideRef(side, name string) *QIdent {
	return &QIdent{Parts: []Ident{{Name: side}, ColIdent(name)}}
}

type refFn func(TCol) Expr

func plainRef(c TCol) Expr { return ColRef(c.Name) }

func (g *G) bindingOf(env *TEnv, t Type, pos string) (Expr, bool) {
	if env == nil || env.UseBindings == 0 || g.n("usebinding", env.UseBindings) != 0 {
		return nil, false
	}
	var cands []Binding
	for _, b := range env.Bindings {
		if b.T == t {
			cands = append(cands, b)
		}
	}
	if len(cands) == 0 {
		return nil, false
	}
	b := pickFrom(g, "binding", cands)
	if env.Uses != nil {
		env.Uses[pos]++
	}
	return ID(b.Name), true
}

func (g *G) intLit() Expr { return &Num{Text: fmt.Sprint(g.n("intlit", 4))} }

func (g *G) intAtom(s Schema, ref refFn, env *TEnv, pos string) Expr {
	if x, ok := g.bindingOf(env, TInt, pos); ok {
		return x
	}
	cs := s.usable(TInt)
	switch k := g.n("intatom", 7); {
	case k <= 3 && len(cs) > 0:
		return ref(pickFrom(g, "intcol", cs))
	case k == 4 && len(cs) > 0:
		return &Unary{Op: "-", X: ref(pickFrom(g, "intcol", cs))}
	case k == 5:
		return &Unary{Op: pickFrom(g, "sign", []string{"-", "+"}), X: g.intLit()}
	default:
		return g.intLit()
	}
}

// IntExpr draws an integer-typed expression (a raw tree: call FixParens).
func (g *G) IntExpr(depth int, s Schema, ref refFn, env *TEnv, pos string) Expr {
	if depth <= 0 {
		return g.intAtom(s, ref, env, pos)
	}
	switch g.n("intnode", 8) {
	case 0, 1, 2:
		return &Binary{Op: pickFrom(g, "arith", []string{"+", "-", "*", "/", "%"}), X: g.IntExpr(depth-1, s, ref, env, pos), Y: g.IntExpr(depth-1, s, ref, env, pos)}
	case 3:
		return &Unary{Op: "-", X: g.IntExpr(depth-1, s, ref, env, pos)}
	case 4:
		return &Call{Func: pickFrom(g, "iff", []string{"iff", "iif"}), Args: []Expr{g.BoolExpr(depth-1, s, ref, env, pos), g.IntExpr(depth-1, s, ref, env, pos), g.IntExpr(depth-1, s, ref, env, pos)}}
	default:
		return g.intAtom(s, ref, env, pos)
	}
}

var typedStrs = []string{"x", "X", "y", ""}

// StrExpr draws a string-typed expression.
func (g *G) StrExpr(depth int, s Schema, ref refFn, env *TEnv, pos string) Expr {
	if x, ok := g.bindingOf(env, TStr, pos); ok {
		return x
	}
	cs := s.usable(TStr)
	k := g.n("strnode", 8)
	switch {
	case k <= 2 && len(cs) > 0:
		return ref(pickFrom(g, "strcol", cs))
	case k == 3 && depth > 0:
		return &Call{Func: pickFrom(g, "case", []string{"tolower", "toupper"}), Args: []Expr{g.StrExpr(depth-1, s, ref, env, pos)}}
	case k == 4 && depth > 0:
		c := &Call{Func: "strcat"}
		for i, n := 0, 1+g.n("nstrcat", 3); i < n; i++ {
			c.Args = append(c.Args, g.StrExpr(depth-1, s, ref, env, pos))
		}
		return c
	case k == 5 && depth > 0:
		return &Call{Func: "iff", Args: []Expr{g.BoolExpr(depth-1, s, ref, env, pos), g.StrExpr(depth-1, s, ref, env, pos), g.StrExpr(depth-1, s, ref, env, pos)}}
	default:
		return g.SpellStr(pickFrom(g, "strlit", typedStrs))
	}
}

// BoolExpr draws a boolean-typed expression.
func (g *G) BoolExpr(depth int, s Schema, ref refFn, env *TEnv, pos string) Expr {
	d := max(depth-1, 0)
	n := 9
	if depth <= 0 {
		n = 5
	}
	switch g.n("boolnode", n) {
	case 0, 1:
		return &Binary{Op: pickFrom(g, "intcmp", []string{"==", "!=", "<", "<=", ">", ">="}), X: g.IntExpr(d, s, ref, env, pos), Y: g.IntExpr(d, s, ref, env, pos)}
	case 2:
		return &Binary{Op: pickFrom(g, "strcmp", []string{"==", "!=", "=~", "!~", "<", ">="}), X: g.StrExpr(d, s, ref, env, pos), Y: g.StrExpr(d, s, ref, env, pos)}
	case 3:
		var x Expr
		if g.n("isnullof", 2) == 0 {
			x = g.IntExpr(d, s, ref, env, pos)
		} else {
			x = g.StrExpr(d, s, ref, env, pos)
		}
		return &Call{Func: pickFrom(g, "isnull", []string{"isnull", "isnotnull"}), Args: []Expr{x}}
	case 4:
		in := &In{X: g.IntExpr(d, s, ref, env, pos)}
		for i, n := 0, 1+g.n("ninvals", 3); i < n; i++ {
			in.Vals = append(in.Vals, g.IntExpr(0, s, ref, env, pos))
		}
		return in
	case 5:
		return &Call{Func: "not", Args: []Expr{g.BoolExpr(d, s, ref, env, pos)}}
	case 6, 7:
		return &Binary{Op: pickFrom(g, "logic", []string{"and", "or"}), X: g.BoolExpr(d, s, ref, env, pos), Y: g.BoolExpr(d, s, ref, env, pos)}
	default:
		if x, ok := g.bindingOf(env, TBool, pos); ok {
			return x
		}
		return ID(pickFrom(g, "boollit", []string{"true", "false"}))
	}
}

// TypedExpr draws an expression of a random type.
func (g *G) TypedExpr(depth int, s Schema, env *TEnv, pos string) (Expr, Type) {
	switch g.n("etype", 3) {
	case 0:
		return g.IntExpr(depth, s, env.plain(), env, pos), TInt
	case 1:
		return g.StrExpr(depth, s, env.plain(), env, pos), TStr
	default:
		return g.BoolExpr(depth, s, env.plain(), env, pos), TBool
	}
}

// FixParens inserts the Paren nodes the grammar requires into a tree built
// without regard to precedence (plus a few redundant ones).
func (g *G) FixParens(x Expr) Expr {
	switch x := x.(type) {
	case *Binary:
		l, r := g.FixParens(x.X), g.FixParens(x.Y)
		return &Binary{Op: x.Op, X: g.maybeParen(l, NeedsParenLeft(x.Op, l)), Y: g.maybeParen(r, NeedsParenRight(x.Op, r))}
	case *Unary:
		in := g.FixParens(x.X)
		return &Unary{Op: x.Op, X: g.maybeParen(in, !IsPrimary(in))}
	case *In:
		l := g.FixParens(x.X)
		out := &In{X: g.maybeParen(l, NeedsParenLeft("in", l))}
		for _, v := range x.Vals {
			out.Vals = append(out.Vals, g.FixParens(v))
		}
		return out
	case *Index:
		b := g.FixParens(x.X)
		return &Index{X: g.maybeParen(b, !IsInnerPrimary(b)), I: g.FixParens(x.I)}
	case *Call:
		out := &Call{Func: x.Func, TrailingComma: x.TrailingComma}
		for _, a := range x.Args {
			out.Args = append(out.Args, g.FixParens(a))
		}
		return out
	case *Paren:
		return &Paren{X: g.FixParens(x.X)}
	}
	return x
}

func (g *G) typedTerm(s Schema, env *TEnv) *Term {
	var x Expr
	if g.n("termtype", 2) == 0 {
		x = g.IntExpr(g.n("termdepth", 2), s, env.plain(), env, "sort")
	} else {
		x = g.StrExpr(g.n("termdepth", 2), s, env.plain(), env, "sort")
	}
	return &Term{X: g.FixParens(x), Dir: pickFrom(g, "dir", []string{"", "asc", "desc"}), Nulls: pickFrom(g, "nulls", []string{"", "first", "last"})}
}

func (g *G) typedRowCount(env *TEnv) Expr {
	if x, ok := g.bindingOf(env, TInt, "rowcount"); ok {
		return x
	}
	if g.n("bigcount", 12) == 0 {
		return &Num{Text: pickFrom(g, "bigcountval", []string{"10", "100", "1000", "0x10", "007", "2147483648", "4294967296", "9223372036854775807", "9223372036854775808", "18446744073709551615", "18446744073709551616", "99999999999999999999"})}
	}
	return &Num{Text: fmt.Sprint(g.n("rowcount", 5))}
}

// TypedOp draws one well-typed operator of the given kind against schema s.
// ok=false: the kind is not applicable here.
func (g *G) TypedOp(kind string, s Schema, env *TEnv, joinDepth int) (Op, Schema, bool) {
	usable := len(s.anyUsable()) > 0
	switch kind {
	case "where":
		return &Where{Kw: pickFrom(g, "wherekw", []string{"where", "filter"}), Pred: g.FixParens(g.BoolExpr(1+g.n("wdepth", 2), s, env.plain(), env, "where"))}, s, true
	case "project":
		if !usable {
			return nil, s, false
		}
		if !env.NoRenameReuse && len(s) <= 4 && len(s.anyUsable()) == len(s) && g.n("rewriteall", 6) == 0 {
			// every column kept under its name, some of them recomputed from the
			// old columns (a = a + 1, or a swap): a stage that can be repeated
			pa := &Project{}
			for _, c := range s {
				id := ColIdent(c.Name)
				if g.n("keepcol", 2) == 0 {
					pa.Cols = append(pa.Cols, &Col{Name: &id})
					continue
				}
				var x Expr
				switch c.T {
				case TInt:
					x = g.IntExpr(1, s, env.plain(), env, "project")
				case TStr:
					x = g.StrExpr(1, s, env.plain(), env, "project")
				default:
					x = g.BoolExpr(1, s, env.plain(), env, "project")
				}
				pa.Cols = append(pa.Cols, &Col{Name: &id, X: g.FixParens(x)})
			}
			return pa, append(Schema{}, s...), true
		}
		p := &Project{}
		var ns Schema
		used := map[string]bool{}
		for i, n := 0, 1+g.n("nproj", 3); i < n; i++ {
			if g.n("bare", 2) == 0 {
				c := pickFrom(g, "projcol", s.anyUsable())
				if used[c.Name] {
					continue
				}
				used[c.Name] = true
				id := env.id(c.Name)
				p.Cols = append(p.Cols, &Col{Name: &id})
				ns = append(ns, TCol{Name: c.Name, T: c.T})
				continue
			}
			x, t := g.TypedExpr(g.n("pdepth", 2), s, env, "project")
			nm := g.Fresh("n")
			if !env.NoRenameReuse && len(s) > 0 && g.n("reuse", 3) == 0 {
				c := pickFrom(g, "reusecol", []TCol(s))
				if !used[c.Name] && !c.Unusable {
					nm = c.Name
				}
			}
			if used[nm] {
				continue
			}
			used[nm] = true
			id := ColIdent(nm)
			p.Cols = append(p.Cols, &Col{Name: &id, X: g.FixParens(x)})
			ns = append(ns, TCol{Name: nm, T: t})
		}
		if len(p.Cols) == 0 {
			return nil, s, false
		}
		return p, ns, true
	case "extend":
		e := &Extend{}
		ns := append(Schema{}, s...)
		for i, n := 0, 1+g.n("next", 2); i < n; i++ {
			x, t := g.TypedExpr(g.n("edepth", 2), s, env, "extend")
			if g.n("unnamedext", 8) == 0 {
				// unnamed computed column: its name is derived from the text
				if _, bare := x.(*QIdent); !bare {
					e.Cols = append(e.Cols, &Col{X: g.FixParens(x)})
					ns = append(ns, TCol{Name: "?", T: t, Unusable: true})
					continue
				}
			}
			id := Ident{Name: g.Fresh("n")}
			e.Cols = append(e.Cols, &Col{Name: &id, X: g.FixParens(x)})
			ns = append(ns, TCol{Name: id.Name, T: t})
		}
		return e, ns, true
	case "summarize":
		op := &Summarize{}
		var ns Schema
		for i, nby := 0, g.n("nby", 3); i < nby; i++ {
			cs := s.anyUsable()
			if len(cs) > 0 && g.n("bybare", 2) == 0 {
				c := pickFrom(g, "bycol", cs)
				dup := false
				for _, b := range ns {
					if b.Name == c.Name {
						dup = true
					}
				}
				if dup {
					continue
				}
				if g.n("bynamed", 3) == 0 {
					id := Ident{Name: g.Fresh("n")}
					op.By = append(op.By, &Col{Name: &id, X: &QIdent{Parts: []Ident{env.id(c.Name)}}})
					ns = append(ns, TCol{Name: id.Name, T: c.T})
				} else {
					op.By = append(op.By, &Col{X: &QIdent{Parts: []Ident{env.id(c.Name)}}})
					ns = append(ns, TCol{Name: c.Name, T: c.T})
				}
			} else {
				id := Ident{Name: g.Fresh("n")}
				op.By = append(op.By, &Col{Name: &id, X: g.FixParens(g.IntExpr(1, s, env.plain(), env, "groupby"))})
				ns = append(ns, TCol{Name: id.Name, T: TInt})
			}
		}
		nagg := g.n("nagg", 3)
		if len(op.By) == 0 && nagg == 0 {
			nagg = 1
		}
		for i := 0; i < nagg; i++ {
			var x Expr
			t := TInt
			switch k := g.n("agg", 6); {
			case k == 0:
				x = &Call{Func: "count"}
			case k == 1:
				x = &Call{Func: "countif", Args: []Expr{g.FixParens(g.BoolExpr(1, s, env.plain(), env, "aggregate"))}}
			case k == 2 && len(s.usable(TStr)) > 0:
				x = &Call{Func: pickFrom(g, "minmax", []string{"min", "max"}), Args: []Expr{g.FixParens(g.StrExpr(0, s, env.plain(), env, "aggregate"))}}
				t = TStr
			default:
				x = &Call{Func: pickFrom(g, "intagg", []string{"sum", "min", "max"}), Args: []Expr{g.FixParens(g.IntExpr(1, s, env.plain(), env, "aggregate"))}}
			}
			if g.n("unnamedagg", 8) == 0 {
				op.Cols = append(op.Cols, &Col{X: x})
				ns = append(ns, TCol{Name: "?", T: TInt, Unusable: true})
				continue
			}
			id := Ident{Name: g.Fresh("n")}
			op.Cols = append(op.Cols, &Col{Name: &id, X: x})
			ns = append(ns, TCol{Name: id.Name, T: t})
		}
		op.CommaBeforeBy = len(op.Cols) > 0 && len(op.By) > 0 && g.chance("commabeforeby", 6)
		return op, ns, true
	case "sort":
		if !usable {
			return nil, s, false
		}
		so := &Sort{Kw: pickFrom(g, "sortkw", []string{"sort", "order"})}
		for i, n := 0, 1+g.n("nterms", 2); i < n; i++ {
			so.Terms = append(so.Terms, g.typedTerm(s, env))
		}
		return so, s, true
	case "take":
		return &Take{Kw: pickFrom(g, "takekw", []string{"take", "limit"}), N: g.typedRowCount(env)}, s, true
	case "top":
		if !usable {
			return nil, s, false
		}
		return &Top{N: g.typedRowCount(env), Term: g.typedTerm(s, env)}, s, true
	case "count":
		return &Count{}, Schema{{Name: "count()", T: TInt}}, true
	case "as":
		name := g.Fresh("N")
		if env != nil && len(env.Base) > 0 && g.chance("asbasename", 6) {
			// the name of a stored table: from here on the name denotes this
			// intermediate result
			var bases []string
			for b := range env.Base {
				if _, taken := env.Named[b]; !taken {
					bases = append(bases, b)
				}
			}
			sort.Strings(bases)
			if len(bases) > 0 {
				name = pickFrom(g, "asbase", bases)
			}
		}
		return &As{Name: Ident{Name: name}}, s, true
	case "render":
		for _, c := range s {
			if c.Name == "render_type" {
				return nil, s, false
			}
		}
		r := &Render{Chart: Ident{Name: pickFrom(g, "chart", []string{"barchart", "table", "piechart"})}}
		ns := append(append(Schema{}, s...), TCol{Name: "render_type", T: TStr})
		for i, n := 0, g.n("nprops", 3); i < n; i++ {
			pn := g.Fresh("p")
			var v Expr
			switch g.n("propkind", 3) {
			case 0:
				v = g.SpellStr(pickFrom(g, "propstr", []string{"v", "w w", "Title"}))
			case 1:
				v = &QIdent{Parts: []Ident{{Name: pickFrom(g, "propid", []string{"stacked", "k", "x1"})}}}
				if env != nil && len(env.Bindings) > 0 && g.chance("propbinding", 2) {
					// a name that is also a binding: a render value is a word,
					// not an expression
					v = &QIdent{Parts: []Ident{{Name: pickFrom(g, "propbindingname", env.Bindings).Name}}}
				}
			default:
				v = &Num{Text: fmt.Sprint(1 + g.n("propnum", 9))}
			}
			r.Props = append(r.Props, &Prop{Name: Ident{Name: pn}, Value: v})
			ns = append(ns, TCol{Name: "render_prop_" + pn, T: TStr})
		}
		return r, ns, true
	case "join":
		if joinDepth <= 0 || len(env.JoinTables) == 0 {
			return nil, s, false
		}
		rt := env.JoinTables[0]
		env.JoinTables = env.JoinTables[1:]
		// an `as` name hides a stored table of the same name
		rs0, ok := env.Named[rt]
		if !ok {
			rs0 = env.Base[rt]
		}
		// names the right-hand side defines stay defined only if the join is kept
		savedTables := append([]string{}, env.JoinTables...)
		savedNamed := map[string]Schema{}
		for k, v := range env.Named {
			savedNamed[k] = v
		}
		undo := func() {
			env.JoinTables = savedTables
			env.Named = savedNamed
		}
		right, rs := g.TypedPipeline(rt, rs0, g.n("rlen", 4), env, joinDepth-1, true)
		li, ri := s.usable(TInt), rs.usable(TInt)
		var conds []Expr
		lk, rk := false, false
		for _, c := range li {
			if c.Name == "k" {
				lk = true
			}
		}
		for _, c := range ri {
			if c.Name == "k" {
				rk = true
			}
		}
		eq := func() Expr {
			l, r := pickFrom(g, "lcol", li), pickFrom(g, "rcol", ri)
			if g.n("flip", 4) == 0 {
				return &Binary{Op: "==", X: sideRef("$right", r.Name), Y: sideRef("$left", l.Name)}
			}
			return &Binary{Op: "==", X: sideRef("$left", l.Name), Y: sideRef("$right", r.Name)}
		}
		switch {
		case lk && rk && !env.hasBinding("k") && g.n("barekey", 2) == 0:
			conds = append(conds, ID("k"))
		case len(li) > 0 && len(ri) > 0:
			conds = append(conds, eq())
		default:
			undo()
			return nil, s, false
		}
		if g.n("onlytrue", 14) == 0 {
			// nothing but the constant: every pair matches
			conds = []Expr{ID("true")}
			if g.chance("twotrue", 3) {
				conds = []Expr{&Paren{X: ID("true")}, ID("true")}
			}
		}
		for len(conds) < 3 && g.n("extracond", 3) == 0 {
			switch g.n("extrakind", 9) {
			case 8:
				// two key equalities over the same two column names, crossed
				var shared []TCol
				for _, lc := range li {
					for _, rc := range ri {
						if lc.Name == rc.Name {
							shared = append(shared, lc)
						}
					}
				}
				if len(shared) >= 2 {
					a, b := shared[0], shared[1]
					conds = append(conds, &Binary{Op: "==", X: sideRef("$left", a.Name), Y: sideRef("$right", b.Name)},
						&Binary{Op: "==", X: sideRef("$right", a.Name), Y: sideRef("$left", b.Name)})
				} else {
					conds = append(conds, eq(), eq())
				}
			case 7:
				// arithmetic across the sides, right side first: the operands
				// of - / % do not commute
				l, r := pickFrom(g, "lcol", li), pickFrom(g, "rcol", ri)
				conds = append(conds, &Binary{Op: pickFrom(g, "arithcmp", []string{">", "<=", "!="}),
					X: &Binary{Op: pickFrom(g, "aritho", []string{"-", "-", "/", "%"}), X: sideRef("$right", r.Name), Y: sideRef("$left", l.Name)},
					Y: g.intLit()})
			case 5:
				// a constant as a whole condition: AND-ed like any other
				conds = append(conds, ID(pickFrom(g, "constcond", []string{"true", "true", "false", "null"})))
			case 6:
				// a parenthesised boolean binding as a whole condition (a bare
				// name would be the `on key` shorthand)
				if b, ok := g.bindingOf(env, TBool, "join"); ok {
					conds = append(conds, &Paren{X: b})
				} else {
					conds = append(conds, &Paren{X: ID("true")})
				}
			case 4:
				// a comparison across the sides below `not`: there NULL and
				// false are not the same thing
				l, r := pickFrom(g, "lcol", li), pickFrom(g, "rcol", ri)
				conds = append(conds, &Call{Func: "not", Args: []Expr{&Binary{Op: pickFrom(g, "notcross", []string{"!=", "<", ">="}), X: sideRef("$left", l.Name), Y: sideRef("$right", r.Name)}}})
			case 0:
				conds = append(conds, eq())
			case 1:
				l, r := pickFrom(g, "lcol", li), pickFrom(g, "rcol", ri)
				conds = append(conds, &Binary{Op: pickFrom(g, "noneq", []string{"<", "!=", ">=", "<="}), X: sideRef("$left", l.Name), Y: sideRef("$right", r.Name)})
			case 2:
				// a predicate on one side only
				if g.n("whichside", 2) == 0 {
					conds = append(conds, g.FixParens(g.BoolExpr(0, Schema(li), func(c TCol) Expr { return sideRef("$left", c.Name) }, nil, "join")))
				} else {
					conds = append(conds, g.FixParens(g.BoolExpr(0, Schema(ri), func(c TCol) Expr { return sideRef("$right", c.Name) }, nil, "join")))
				}
			default:
				l, r := pickFrom(g, "lcol", li), pickFrom(g, "rcol", ri)
				conds = append(conds, g.FixParens(&Binary{Op: pickFrom(g, "condlogic", []string{"and", "or"}),
					X: &Binary{Op: "<", X: sideRef("$left", l.Name), Y: sideRef("$right", r.Name)},
					Y: &Binary{Op: ">", X: sideRef("$left", l.Name), Y: g.intLit()}}))
			}
		}
		if g.n("manyconds", 12) == 0 {
			// a long condition list (the same few conditions over and over)
			base := append([]Expr{}, conds...)
			for n := 9 + g.n("nmanyconds", 8); len(conds) < n; {
				conds = append(conds, base[len(conds)%len(base)])
			}
		}
		if env.UseBindings > 0 {
			if b, ok := g.bindingOf(env, TInt, "join"); ok {
				l := pickFrom(g, "lcol", li)
				conds = append(conds, &Binary{Op: pickFrom(g, "bindcmp", []string{"<=", ">=", "!="}), X: sideRef("$left", l.Name), Y: b})
			}
		}
		ns := Schema{}
		seen := map[string]int{}
		for _, c := range append(append(Schema{}, s...), rs...) {
			seen[c.Name]++
		}
		for _, c := range append(append(Schema{}, s...), rs...) {
			c.Unusable = c.Unusable || seen[c.Name] > 1
			ns = append(ns, c)
		}
		return &Join{Kind: pickFrom(g, "joinkind", []string{"", "inner", "innerunique", "leftouter"}), Right: right, Conds: conds}, ns, true
	}
	panic("gen: unknown typed operator kind " + kind)
}

// TypedPipeline draws a well-typed pipeline of up to n operators over table.
// right=true: a join's right-hand side (no `as`, no render).
func (g *G) TypedPipeline(table string, s Schema, n int, env *TEnv, joinDepth int, right bool) (*Tabular, Schema) {
	t := &Tabular{Table: ColIdent(table)}
	for i := 0; i < n; i++ {
		kind := pickFrom(g, "opkind", OpKinds)
		if right && kind == "render" {
			continue
		}
		op, ns, ok := g.TypedOp(kind, s, env, joinDepth)
		if !ok {
			continue
		}
		t.Ops = append(t.Ops, op)
		if _, isAs := op.(*As); !isAs && sameSchema(s, ns) && g.n("repeatop", 8) == 0 {
			// the very same operator once more (its text is identical)
			t.Ops = append(t.Ops, op)
		}
		if as, isAs := op.(*As); isAs {
			if env.Named == nil {
				env.Named = map[string]Schema{}
			}
			// later right-hand sides may read this result by name, unless a
			// column of it cannot be referenced
			env.Named[as.Name.Name] = s
			if g.n("reuseas", 2) == 0 {
				env.JoinTables = append([]string{as.Name.Name}, env.JoinTables...)
			}
		}
		s = ns
	}
	return t, s
}

func sameSchema(a, b Schema) bool {
	if len(a) != len(b) {
		return false
	}
	for i := range a {
		if a[i].Name != b[i].Name || a[i].T != b[i].T || a[i].Unusable != b[i].Unusable {
			return false
		}
	}
	return true
}

// TypedSequence instantiates a fixed sequence of operator kinds (the
// exhaustive part of C02); kinds that are not applicable are skipped.
func (g *G) TypedSequence(table string, s Schema, kinds []string, env *TEnv, joinDepth int) (*Tabular, Schema, int) {
	t := &Tabular{Table: ColIdent(table)}
	applied := 0
	for _, kind := range kinds {
		op, ns, ok := g.TypedOp(kind, s, env, joinDepth)
		if !ok {
			continue
		}
		applied++
		t.Ops = append(t.Ops, op)
		if _, isAs := op.(*As); env != nil && env.RepeatOps && !isAs && sameSchema(s, ns) && g.n("repeatop", 8) == 0 {
			t.Ops = append(t.Ops, op)
		}
		if as, isAs := op.(*As); isAs {
			if env.Named == nil {
				env.Named = map[string]Schema{}
			}
			env.Named[as.Name.Name] = s
		}
		s = ns
	}
	return t, s, applied
}

// StdSchemas are the base tables of the evaluating checks.
var StdSchemas = map[string]Schema{
	"A": {{Name: "k", T: TInt}, {Name: "a1", T: TInt}, {Name: "a2", T: TStr}},
	"B": {{Name: "k", T: TInt}, {Name: "b1", T: TInt}, {Name: "b2", T: TStr}},
	"C": {{Name: "k", T: TInt}, {Name: "c1", T: TInt}, {Name: "c2", T: TStr}},
}

// TableData is the generated content of one table.
type TableData struct {
	Cols []string
	Rows [][]prim.Value
}

// GenDB draws small tables with duplicates, ties, NULLs and empty tables.
func GenDB(t *rapid.T, schemas map[string]Schema, names []string) map[string]*TableData {
	db := map[string]*TableData{}
	for _, name := range names {
		sch := schemas[name]
		td := &TableData{}
		for _, c := range sch {
			td.Cols = append(td.Cols, c.Name)
		}
		n := rapid.IntRange(0, 6).Draw(t, "rows"+name)
		for i := 0; i < n; i++ {
			if i > 0 && rapid.IntRange(0, 5).Draw(t, "duprow") == 0 {
				td.Rows = append(td.Rows, append([]prim.Value{}, td.Rows[rapid.IntRange(0, i-1).Draw(t, "dupof")]...))
				continue
			}
			var row []prim.Value
			for _, c := range sch {
				switch {
				case rapid.IntRange(0, 4).Draw(t, "null") == 0:
					row = append(row, nil)
				case c.T == TInt:
					row = append(row, int64(rapid.IntRange(0, 3).Draw(t, "iv")))
				default:
					row = append(row, rapid.SampledFrom(typedStrs).Draw(t, "sv"))
				}
			}
			td.Rows = append(td.Rows, row)
		}
		db[name] = td
	}
	return db
}

// Package gen is the harness's own model of PQL programs: an AST that is
// deliberately not the parser package's, a printer that turns a tree into the
// intended token list and (with a layout) into source text, canonical forms for
// comparison, rapid generators and mutators.
package gen

// Expr is a scalar expression.
type Expr interface{ isExpr() }

// Ident is one identifier part.
type Ident struct {
	Name   string
	Quoted bool
}

// QIdent is one or more dot-separated identifiers.
type QIdent struct{ Parts []Ident }

// Num is a numeric literal, kept in its source spelling.
type Num struct{ Text string }

// Str is a string literal. Value is the decoded value; Raw, when non-empty, is
// the exact source spelling including quotes (layout only).
type Str struct {
	Value string
	Raw   string
}

// Unary is +X or -X.
type Unary struct {
	Op string
	X  Expr
}

// Binary is X Op Y with Op in its PQL spelling.
type Binary struct {
	Op   string
	X, Y Expr
}

// In is X in (Vals...).
type In struct {
	X    Expr
	Vals []Expr
}

// Paren is an explicit parenthesised expression.
type Paren struct{ X Expr }

// Index is X[I].
type Index struct{ X, I Expr }

// Call is Func(Args...). TrailingComma is layout only.
type Call struct {
	Func          string
	Args          []Expr
	TrailingComma bool
}

func (*QIdent) isExpr() {}
func (*Num) isExpr()    {}
func (*Str) isExpr()    {}
func (*Unary) isExpr()  {}
func (*Binary) isExpr() {}
func (*In) isExpr()     {}
func (*Paren) isExpr()  {}
func (*Index) isExpr()  {}
func (*Call) isExpr()   {}

// Col is a column term: project (Name set, X optional), extend / summarize
// (X set, Name optional).
type Col struct {
	Name *Ident
	X    Expr
}

// Term is a sort term. Dir is "", "asc" or "desc"; Nulls is "", "first" or "last".
type Term struct {
	X     Expr
	Dir   string
	Nulls string
}

// Resolved applies the documented defaults: descending with nulls last;
// ascending puts nulls first unless stated.
func (t *Term) Resolved() (asc, nullsFirst bool) {
	asc = t.Dir == "asc"
	nullsFirst = asc
	switch t.Nulls {
	case "first":
		nullsFirst = true
	case "last":
		nullsFirst = false
	}
	return
}

// Prop is a render property.
type Prop struct {
	Name  Ident
	Value Expr
}

// Op is a tabular operator.
type Op interface{ isOp() }

type (
	// Where is `where`/`filter`. Kw is layout only ("" = where).
	Where struct {
		Kw   string
		Pred Expr
	}
	Project struct{ Cols []*Col }
	Extend  struct{ Cols []*Col }
	// Summarize: aggregates Cols, group keys By. CommaBeforeBy is layout only.
	Summarize struct {
		Cols          []*Col
		By            []*Col
		CommaBeforeBy bool
	}
	// Sort is `sort by`/`order by`. Kw is layout only.
	Sort struct {
		Kw    string
		Terms []*Term
	}
	// Take is `take`/`limit`. Kw is layout only.
	Take struct {
		Kw string
		N  Expr
	}
	Top struct {
		N    Expr
		Term *Term
	}
	Count  struct{}
	As     struct{ Name Ident }
	Render struct {
		Chart Ident
		Props []*Prop // non-empty = `with (...)` present
	}
	// Join: Kind "" = no kind clause.
	Join struct {
		Kind  string
		Right *Tabular
		Conds []Expr
	}
)

func (*Where) isOp()     {}
func (*Project) isOp()   {}
func (*Extend) isOp()    {}
func (*Summarize) isOp() {}
func (*Sort) isOp()      {}
func (*Take) isOp()      {}
func (*Top) isOp()       {}
func (*Count) isOp()     {}
func (*As) isOp()        {}
func (*Render) isOp()    {}
func (*Join) isOp()      {}

// Stmt is a statement.
type Stmt interface{ isStmt() }

// Tabular is a query: table name and operators.
type Tabular struct {
	Table Ident
	Ops   []Op
}

// Let is `let Name = X`.
type Let struct {
	Name Ident
	X    Expr
}

func (*Tabular) isStmt() {}
func (*Let) isStmt()     {}

// Program is a list of statements. EmptyBefore[i] is the number of empty
// statements (extra semicolons) printed before statement i; EmptyBefore has
// len(Stmts)+1 entries when set (the last one counts trailing semicolons; the
// separator between two statements is not counted). Layout only.
type Program struct {
	Stmts       []Stmt
	EmptyBefore []int
}

// OpKind names an operator's kind ("where", "project", ...).
func OpKind(op Op) string {
	switch op.(type) {
	case *Where:
		return "where"
	case *Project:
		return "project"
	case *Extend:
		return "extend"
	case *Summarize:
		return "summarize"
	case *Sort:
		return "sort"
	case *Take:
		return "take"
	case *Top:
		return "top"
	case *Count:
		return "count"
	case *As:
		return "as"
	case *Render:
		return "render"
	case *Join:
		return "join"
	}
	return "?"
}

// OpKinds lists the eleven operator kinds.
var OpKinds = []string{"where", "project", "extend", "summarize", "sort", "take", "top", "count", "as", "render", "join"}

// Prec is PQL's binary operator precedence (or < and < comparisons/in < + - < * / %).
func Prec(op string) int {
	switch op {
	case "or":
		return 0
	case "and":
		return 1
	case "==", "!=", "<", "<=", ">", ">=", "=~", "!~", "in":
		return 2
	case "+", "-":
		return 3
	case "*", "/", "%":
		return 4
	}
	return -1
}

// BinaryOps are the sixteen binary operators minus `in` (which has its own node).
var BinaryOps = []string{"or", "and", "==", "!=", "<", "<=", ">", ">=", "=~", "!~", "+", "-", "*", "/", "%"}

// ID makes an unquoted single-part identifier expression.
func ID(name string) *QIdent { return &QIdent{Parts: []Ident{{Name: name}}} }

// WalkExpr calls f for x and every expression below it (pre-order).
func WalkExpr(x Expr, f func(Expr)) {
	if x == nil {
		return
	}
	f(x)
	switch x := x.(type) {
	case *Unary:
		WalkExpr(x.X, f)
	case *Binary:
		WalkExpr(x.X, f)
		WalkExpr(x.Y, f)
	case *In:
		WalkExpr(x.X, f)
		for _, v := range x.Vals {
			WalkExpr(v, f)
		}
	case *Paren:
		WalkExpr(x.X, f)
	case *Index:
		WalkExpr(x.X, f)
		WalkExpr(x.I, f)
	case *Call:
		for _, a := range x.Args {
			WalkExpr(a, f)
		}
	}
}

// ExprsOfOp returns the expressions an operator holds (not descending into a
// join's right-hand pipeline).
func ExprsOfOp(op Op) []Expr {
	var out []Expr
	cols := func(cs []*Col) {
		for _, c := range cs {
			if c.X != nil {
				out = append(out, c.X)
			}
		}
	}
	switch op := op.(type) {
	case *Where:
		out = append(out, op.Pred)
	case *Project:
		cols(op.Cols)
	case *Extend:
		cols(op.Cols)
	case *Summarize:
		cols(op.Cols)
		cols(op.By)
	case *Sort:
		for _, t := range op.Terms {
			out = append(out, t.X)
		}
	case *Take:
		out = append(out, op.N)
	case *Top:
		out = append(out, op.N, op.Term.X)
	case *Render:
		for _, p := range op.Props {
			out = append(out, p.Value)
		}
	case *Join:
		out = append(out, op.Conds...)
	}
	return out
}

// WalkTabular calls f for every operator of t, including those of joined
// right-hand pipelines (depth-first, in source order).
func WalkTabular(t *Tabular, f func(owner *Tabular, op Op)) {
	for _, op := range t.Ops {
		f(t, op)
		if j, ok := op.(*Join); ok {
			WalkTabular(j.Right, f)
		}
	}
}

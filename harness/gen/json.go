package gen

import (
	"encoding/json"
	"fmt"
	"reflect"
)

// Trees travel in replay files as JSON: every node is an object with a "T" key
// naming its type; strings that may hold invalid UTF-8 are stored as byte
// arrays when necessary ("\x.." cannot live in JSON strings).

var nodeTypes = map[string]reflect.Type{}

func init() {
	for _, v := range []any{
		QIdent{}, Num{}, Str{}, Unary{}, Binary{}, In{}, Paren{}, Index{}, Call{},
		Where{}, Project{}, Extend{}, Summarize{}, Sort{}, Take{}, Top{}, Count{}, As{}, Render{}, Join{},
		Tabular{}, Let{}, Program{}, Col{}, Term{}, Prop{}, Ident{},
	} {
		t := reflect.TypeOf(v)
		nodeTypes[t.Name()] = t
	}
}

// Encode turns a tree (any node pointer) into a JSON-able value.
func Encode(n any) any { return enc(reflect.ValueOf(n)) }

func enc(v reflect.Value) any {
	if !v.IsValid() {
		return nil
	}
	switch v.Kind() {
	case reflect.Interface, reflect.Ptr:
		if v.IsNil() {
			return nil
		}
		return enc(v.Elem())
	case reflect.Struct:
		m := map[string]any{"T": v.Type().Name()}
		for i := 0; i < v.NumField(); i++ {
			f := v.Type().Field(i)
			if !f.IsExported() {
				continue
			}
			m[f.Name] = enc(v.Field(i))
		}
		return m
	case reflect.Slice:
		out := make([]any, v.Len())
		for i := range out {
			out[i] = enc(v.Index(i))
		}
		return out
	case reflect.String:
		s := v.String()
		b, err := json.Marshal(s)
		var back string
		if err == nil && json.Unmarshal(b, &back) == nil && back == s {
			return s
		}
		bytes := make([]any, len(s))
		for i := 0; i < len(s); i++ {
			bytes[i] = float64(s[i])
		}
		return map[string]any{"T": "bytes", "B": bytes}
	case reflect.Bool:
		return v.Bool()
	case reflect.Int, reflect.Int64:
		return float64(v.Int())
	}
	panic(fmt.Sprintf("gen.Encode: unsupported kind %v", v.Kind()))
}

// Decode rebuilds a tree from the value produced by Encode (after a JSON
// round trip). The result is a pointer to the node struct.
func Decode(x any) (any, error) {
	m, ok := x.(map[string]any)
	if !ok {
		return nil, fmt.Errorf("gen.Decode: expected object, got %T", x)
	}
	tn, _ := m["T"].(string)
	t, ok := nodeTypes[tn]
	if !ok {
		return nil, fmt.Errorf("gen.Decode: unknown node type %q", tn)
	}
	pv := reflect.New(t)
	if err := decInto(pv.Elem(), m); err != nil {
		return nil, err
	}
	return pv.Interface(), nil
}

func decInto(dst reflect.Value, x any) error {
	switch dst.Kind() {
	case reflect.Struct:
		m, ok := x.(map[string]any)
		if !ok {
			return fmt.Errorf("expected object for %v", dst.Type())
		}
		for i := 0; i < dst.NumField(); i++ {
			f := dst.Type().Field(i)
			if !f.IsExported() {
				continue
			}
			if v, ok := m[f.Name]; ok && v != nil {
				if err := decInto(dst.Field(i), v); err != nil {
					return fmt.Errorf("%s.%s: %w", dst.Type().Name(), f.Name, err)
				}
			}
		}
		return nil
	case reflect.Ptr:
		pv := reflect.New(dst.Type().Elem())
		if err := decInto(pv.Elem(), x); err != nil {
			return err
		}
		dst.Set(pv)
		return nil
	case reflect.Interface:
		n, err := Decode(x)
		if err != nil {
			return err
		}
		nv := reflect.ValueOf(n)
		if !nv.Type().Implements(dst.Type()) {
			return fmt.Errorf("%v does not implement %v", nv.Type(), dst.Type())
		}
		dst.Set(nv)
		return nil
	case reflect.Slice:
		arr, ok := x.([]any)
		if !ok {
			return fmt.Errorf("expected array for %v", dst.Type())
		}
		s := reflect.MakeSlice(dst.Type(), len(arr), len(arr))
		for i, e := range arr {
			if e == nil {
				continue
			}
			if err := decInto(s.Index(i), e); err != nil {
				return err
			}
		}
		dst.Set(s)
		return nil
	case reflect.String:
		switch v := x.(type) {
		case string:
			dst.SetString(v)
		case map[string]any:
			arr, _ := v["B"].([]any)
			b := make([]byte, len(arr))
			for i, e := range arr {
				f, _ := e.(float64)
				b[i] = byte(f)
			}
			dst.SetString(string(b))
		default:
			return fmt.Errorf("expected string, got %T", x)
		}
		return nil
	case reflect.Bool:
		b, _ := x.(bool)
		dst.SetBool(b)
		return nil
	case reflect.Int, reflect.Int64:
		f, _ := x.(float64)
		dst.SetInt(int64(f))
		return nil
	}
	return fmt.Errorf("gen.Decode: unsupported kind %v", dst.Kind())
}

// MarshalTree encodes a tree as JSON bytes.
func MarshalTree(n any) json.RawMessage {
	b, err := json.Marshal(Encode(n))
	if err != nil {
		panic(err)
	}
	return b
}

// UnmarshalProgram decodes a *Program.
func UnmarshalProgram(raw json.RawMessage) (*Program, error) {
	var x any
	if err := json.Unmarshal(raw, &x); err != nil {
		return nil, err
	}
	n, err := Decode(x)
	if err != nil {
		return nil, err
	}
	p, ok := n.(*Program)
	if !ok {
		return nil, fmt.Errorf("expected Program, got %T", n)
	}
	return p, nil
}

// UnmarshalExpr decodes an expression.
func UnmarshalExpr(raw json.RawMessage) (Expr, error) {
	var x any
	if err := json.Unmarshal(raw, &x); err != nil {
		return nil, err
	}
	n, err := Decode(x)
	if err != nil {
		return nil, err
	}
	e, ok := n.(Expr)
	if !ok {
		return nil, fmt.Errorf("expected Expr, got %T", n)
	}
	return e, nil
}

package gen

import (
	"fmt"
	"math/big"
	"strings"

	"verif/harness/reftok"
)

// NumValue is the exact value of a numeric spelling (decimal, fractional,
// exponent or hexadecimal) and whether the spelling is a float spelling.
func NumValue(text string) (*big.Rat, bool) {
	if len(text) > 2 && text[0] == '0' && (text[1] == 'x' || text[1] == 'X') {
		v, ok := new(big.Int).SetString(text[2:], 16)
		if !ok {
			return nil, false
		}
		return new(big.Rat).SetInt(v), false
	}
	return reftok.ParseDecimal(text), strings.ContainsAny(text, ".eE")
}

// Canon renders a tree as an S-expression that ignores layout-only
// information (keyword synonyms, optional commas, quote styles, number
// spellings): two programs have the same Canon iff they are the same tree in
// the sense of property C07.
func Canon(n any) string {
	var sb strings.Builder
	canon(&sb, n)
	return sb.String()
}

func canonIdent(sb *strings.Builder, id Ident) {
	if id.Quoted {
		fmt.Fprintf(sb, "`%q", id.Name)
	} else {
		fmt.Fprintf(sb, "%q", id.Name)
	}
}

func canonCols(sb *strings.Builder, cs []*Col) {
	sb.WriteString("[")
	for i, c := range cs {
		if i > 0 {
			sb.WriteString(" ")
		}
		sb.WriteString("(col ")
		if c.Name != nil {
			canonIdent(sb, *c.Name)
		} else {
			sb.WriteString("_")
		}
		sb.WriteString(" ")
		if c.X != nil {
			canon(sb, c.X)
		} else {
			sb.WriteString("_")
		}
		sb.WriteString(")")
	}
	sb.WriteString("]")
}

func canonTerm(sb *strings.Builder, t *Term) {
	asc, nf := t.Resolved()
	sb.WriteString("(term ")
	canon(sb, t.X)
	fmt.Fprintf(sb, " asc=%v nullsfirst=%v dir-stated=%v nulls-stated=%v)", asc, nf, t.Dir != "", t.Nulls != "")
}

func canon(sb *strings.Builder, n any) {
	switch n := n.(type) {
	case nil:
		sb.WriteString("nil")
	case *QIdent:
		sb.WriteString("(id")
		for _, p := range n.Parts {
			sb.WriteString(" ")
			canonIdent(sb, p)
		}
		sb.WriteString(")")
	case *Num:
		v, isFloat := NumValue(n.Text)
		k := "int"
		if isFloat {
			k = "float"
		}
		if v == nil {
			fmt.Fprintf(sb, "(num ?%q)", n.Text)
		} else {
			fmt.Fprintf(sb, "(num %s %s)", v.RatString(), k)
		}
	case *Str:
		fmt.Fprintf(sb, "(str %q)", n.Value)
	case *Unary:
		fmt.Fprintf(sb, "(un %s ", n.Op)
		canon(sb, n.X)
		sb.WriteString(")")
	case *Binary:
		fmt.Fprintf(sb, "(bin %s ", n.Op)
		canon(sb, n.X)
		sb.WriteString(" ")
		canon(sb, n.Y)
		sb.WriteString(")")
	case *In:
		sb.WriteString("(in ")
		canon(sb, n.X)
		for _, v := range n.Vals {
			sb.WriteString(" ")
			canon(sb, v)
		}
		sb.WriteString(")")
	case *Paren:
		sb.WriteString("(paren ")
		canon(sb, n.X)
		sb.WriteString(")")
	case *Index:
		sb.WriteString("(index ")
		canon(sb, n.X)
		sb.WriteString(" ")
		canon(sb, n.I)
		sb.WriteString(")")
	case *Call:
		fmt.Fprintf(sb, "(call %q", n.Func)
		for _, a := range n.Args {
			sb.WriteString(" ")
			canon(sb, a)
		}
		sb.WriteString(")")
	case *Where:
		sb.WriteString("(where ")
		canon(sb, n.Pred)
		sb.WriteString(")")
	case *Project:
		sb.WriteString("(project ")
		canonCols(sb, n.Cols)
		sb.WriteString(")")
	case *Extend:
		sb.WriteString("(extend ")
		canonCols(sb, n.Cols)
		sb.WriteString(")")
	case *Summarize:
		sb.WriteString("(summarize ")
		canonCols(sb, n.Cols)
		sb.WriteString(" by ")
		canonCols(sb, n.By)
		sb.WriteString(")")
	case *Sort:
		sb.WriteString("(sort")
		for _, t := range n.Terms {
			sb.WriteString(" ")
			canonTerm(sb, t)
		}
		sb.WriteString(")")
	case *Take:
		sb.WriteString("(take ")
		canon(sb, n.N)
		sb.WriteString(")")
	case *Top:
		sb.WriteString("(top ")
		canon(sb, n.N)
		sb.WriteString(" ")
		canonTerm(sb, n.Term)
		sb.WriteString(")")
	case *Count:
		sb.WriteString("(count)")
	case *As:
		sb.WriteString("(as ")
		canonIdent(sb, n.Name)
		sb.WriteString(")")
	case *Render:
		sb.WriteString("(render ")
		canonIdent(sb, n.Chart)
		for _, p := range n.Props {
			sb.WriteString(" (prop ")
			canonIdent(sb, p.Name)
			sb.WriteString(" ")
			canon(sb, p.Value)
			sb.WriteString(")")
		}
		sb.WriteString(")")
	case *Join:
		fmt.Fprintf(sb, "(join kind=%q ", n.Kind)
		canon(sb, n.Right)
		for _, c := range n.Conds {
			sb.WriteString(" ")
			canon(sb, c)
		}
		sb.WriteString(")")
	case *Tabular:
		if n == nil {
			sb.WriteString("nil")
			return
		}
		sb.WriteString("(tabular ")
		canonIdent(sb, n.Table)
		for _, op := range n.Ops {
			sb.WriteString(" ")
			canon(sb, op)
		}
		sb.WriteString(")")
	case *Let:
		sb.WriteString("(let ")
		canonIdent(sb, n.Name)
		sb.WriteString(" ")
		canon(sb, n.X)
		sb.WriteString(")")
	case *Program:
		sb.WriteString("(program")
		for _, s := range n.Stmts {
			sb.WriteString(" ")
			canon(sb, s)
		}
		sb.WriteString(")")
	case Expr:
		// typed nil inside an interface
		sb.WriteString("nil")
	default:
		fmt.Fprintf(sb, "(?%T)", n)
	}
}

// Shape is Canon with every leaf replaced by its kind: used for distinctness
// classes ("same shape, different names").
func Shape(n any) string {
	s := Canon(n)
	var sb strings.Builder
	inStr := false
	for i := 0; i < len(s); i++ {
		c := s[i]
		if inStr {
			if c == '\\' {
				i++
				continue
			}
			if c == '"' {
				inStr = false
				sb.WriteString("_")
			}
			continue
		}
		if c == '"' {
			inStr = true
			continue
		}
		sb.WriteByte(c)
	}
	return sb.String()
}

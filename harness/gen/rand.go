package gen

import (
	"fmt"

	"pgregory.net/rapid"
)

// Cfg steers the syntactic generator.
type Cfg struct {
	MaxDepth   int  // expression depth
	MaxOps     int  // operators per pipeline
	JoinDepth  int  // nesting depth of joins
	Compilable bool // obey the compile-time rules (arity, $left/$right only in join conditions, integer row counts, closed lets)
	Hostile    bool // names and strings with quotes, backslashes, comment markers, non-ASCII
	Lets       bool // let statements around the query
	NoRender   bool
}

// G is a generator bound to a rapid test case.
type G struct {
	T     *rapid.T
	Cfg   Cfg
	fresh int
	scope []string // let names in scope (Compilable mode uses them as leaves)
}

// NewG creates a generator.
func NewG(t *rapid.T, cfg Cfg) *G { return &G{T: t, Cfg: cfg} }

func (g *G) n(label string, n int) int { return rapid.IntRange(0, n-1).Draw(g.T, label) }
func (g *G) chance(label string, oneIn int) bool {
	return rapid.IntRange(0, oneIn-1).Draw(g.T, label) == 0
}

func pickFrom[T any](g *G, label string, xs []T) T { return xs[g.n(label, len(xs))] }

// ---- leaves ----

var plainNames = []string{"a", "b", "c", "k", "x1", "_u", "Col9", "tbl", "count_", "kind", "on", "with", "where", "project", "top", "as", "join", "T", "NULL", "True", "OR", "By", "In", "AND", "__subquery1", "__subquery2", "___subquery0", "___subquery1", "___subquery2", "____subquery1", "__subquery", "$t", "$tmp_1", "$Left"}
var quotedNames = []string{"a b", "select", "and", "by", "x`y", "", "é", "a.b", "1st", "count()", "from", "null", "true", "false", "a.b.c", ".x", "x.", "let", "$left", "$right"}
var hostileNames = []string{`q"d`, `s'q`, `b\s`, `--c`, `/*c*/`, `a;b`, `tab	x`, "nul\x00x", "bad\xffutf", `x\`, `"`, `'`, "``", `$left`, `{p}`}
var tableNames = []string{"T", "U", "Events", "tbl", "_t1", "__subquery0", "__subquery1"}

// Builtins maps each documented built-in to its arity (-1: at least one).
var Builtins = map[string]int{
	"not": 1, "isnull": 1, "isnotnull": 1, "tolower": 1, "toupper": 1, "countif": 1,
	"now": 0, "count": 0, "iff": 3, "iif": 3, "strcat": -1,
}

// BuiltinNames in a fixed order.
var BuiltinNames = []string{"not", "isnull", "isnotnull", "tolower", "toupper", "countif", "now", "count", "iff", "iif", "strcat"}

// PassThrough are function names the compiler passes through unchanged and
// the harness's SQL evaluator treats as opaque (it gives none of them a
// meaning of its own).
var PassThrough = []string{"f", "g2", "dateadd", "my_func", "F", "strlen", "COUNTIF", "bin"}

var numSpellings = []string{"0", "1", "2", "7", "42", "007", "0x1F", "0X0a", "0xffffffffffffffff", ".5", "1.", "1.5", "0.25", "1e3", "1E+2", "1.e-1", "00.50", "9007199254740993", "123456789012345678901234567890", "1e400"}
var intSpellings = []string{"0", "1", "2", "3", "10", "007", "0x1F", "0X0a", "18446744073709551615", "18446744073709551616", "340282366920938463463374607431768211456", "2147483648", "4294967296", "9223372036854775808", "0x0000000000000000A", "0x00000000000000000000FFFF"}
var strValues = []string{"", "a", "A", "b c", "Thunderstorm Wind", "x"}
var hostileStrValues = []string{"it's", `say "hi"`, `back\slash`, `end\`, "tab\there", "nl\nline", "é", "--", "/* c */", ";", "' OR 1=1 --", `\'`, "\x00", "bad\xffutf", "`", `'; DROP TABLE t; --`, `\\`, "{p}", "a''b"}

// Ident draws an identifier for a column / alias position.
func (g *G) Ident() Ident {
	k := g.n("identkind", 10)
	switch {
	case k < 6:
		return Ident{Name: pickFrom(g, "plain", plainNames)}
	case k < 8 || !g.Cfg.Hostile:
		return Ident{Name: pickFrom(g, "quoted", quotedNames), Quoted: true}
	default:
		return Ident{Name: pickFrom(g, "hostile", hostileNames), Quoted: true}
	}
}

// Fresh returns a new unquoted name.
func (g *G) Fresh(prefix string) string {
	g.fresh++
	return fmt.Sprintf("%s%d", prefix, g.fresh)
}

func (g *G) qident(ctx ECtx) Expr {
	if ctx.Join && g.n("joinref", 3) > 0 {
		side := pickFrom(g, "side", []string{"$left", "$right"})
		return &QIdent{Parts: []Ident{{Name: side}, g.Ident()}}
	}
	switch g.n("qidkind", 8) {
	case 0:
		return &QIdent{Parts: []Ident{g.Ident(), g.Ident()}}
	case 1:
		return &QIdent{Parts: []Ident{g.Ident(), g.Ident(), g.Ident()}}
	case 2:
		return ID(pickFrom(g, "const", []string{"true", "false", "null"}))
	default:
		return &QIdent{Parts: []Ident{g.Ident()}}
	}
}

// StrLit draws a string literal with a random spelling.
func (g *G) StrLit() *Str {
	var v string
	if g.Cfg.Hostile && g.n("hostilestr", 2) == 0 {
		v = pickFrom(g, "hstr", hostileStrValues)
	} else {
		v = pickFrom(g, "str", strValues)
	}
	return g.SpellStr(v)
}

// SpellStr chooses quote style and (superfluous) escapes for a value.
func (g *G) SpellStr(v string) *Str {
	q := byte('"')
	if g.n("quote", 2) == 0 {
		q = '\''
	}
	raw := QuoteString(v, q)
	if g.chance("superfluous", 5) {
		mask := rapid.Uint64().Draw(g.T, "escmask")
		raw = SpellWith(v, q, func(i int) bool { return mask>>(uint(i)%64)&1 == 1 })
	}
	if g.chance("rawtab", 4) {
		// \t escape instead of a raw tab
		raw = replaceRawTabs(raw)
	}
	return &Str{Value: v, Raw: raw}
}

func replaceRawTabs(raw string) string {
	out := make([]byte, 0, len(raw)+4)
	for i := 0; i < len(raw); i++ {
		if raw[i] == '\t' {
			out = append(out, '\\', 't')
		} else {
			out = append(out, raw[i])
		}
	}
	return string(out)
}

// ECtx is the position an expression is generated for.
type ECtx struct {
	Join bool // inside a join condition: $left./$right. references allowed
	Let  bool // let value: closed expression
	Agg  bool // aggregate functions make sense (summarize)
	// NoAgg: inside the argument of an aggregate: no (nested) aggregate calls.
	NoAgg bool
}

func (g *G) leaf(ctx ECtx) Expr {
	if ctx.Let {
		switch k := g.n("letleaf", 6); {
		case k == 0 && len(g.scope) > 0:
			return ID(pickFrom(g, "scopename", g.scope))
		case k == 1:
			return ID(pickFrom(g, "const", []string{"true", "false", "null"}))
		case k == 2:
			return g.StrLit()
		default:
			return &Num{Text: pickFrom(g, "num", numSpellings)}
		}
	}
	switch k := g.n("leaf", 10); {
	case k < 5:
		return g.qident(ctx)
	case k < 7:
		return &Num{Text: pickFrom(g, "num", numSpellings)}
	case k == 7 && len(g.scope) > 0:
		return ID(pickFrom(g, "scopename", g.scope))
	default:
		return g.StrLit()
	}
}

// NeedsParenLeft: must X be parenthesised as the left operand of op?
func NeedsParenLeft(op string, x Expr) bool {
	switch x := x.(type) {
	case *Binary:
		return Prec(x.Op) < Prec(op)
	case *In:
		return Prec("in") < Prec(op)
	}
	return false
}

// NeedsParenRight: must Y be parenthesised as the right operand of op?
func NeedsParenRight(op string, y Expr) bool {
	switch y := y.(type) {
	case *Binary:
		return Prec(y.Op) <= Prec(op)
	case *In:
		return Prec("in") <= Prec(op)
	}
	return false
}

// IsPrimary: may x follow a sign directly?
func IsPrimary(x Expr) bool {
	switch x.(type) {
	case *QIdent, *Num, *Str, *Call, *Paren, *Index:
		return true
	}
	return false
}

// IsInnerPrimary: may x be indexed directly?
func IsInnerPrimary(x Expr) bool {
	switch x.(type) {
	case *QIdent, *Num, *Str, *Call, *Paren:
		return true
	}
	return false
}

func (g *G) maybeParen(x Expr, need bool) Expr {
	if need || g.chance("redundantparen", 8) {
		return &Paren{X: x}
	}
	return x
}

// ExtraPassThrough holds function names the harness learnt from the tree
// under test (words of its source that the language as written down here does
// not know): they are called like any other function.
var ExtraPassThrough []string

func (g *G) call(depth int, ctx ECtx) Expr {
	sub := func() Expr { return g.Expr(depth-1, ctx) }
	k := g.n("callkind", 10)
	if k < 6 {
		name := pickFrom(g, "builtin", BuiltinNames)
		if (name == "count" || name == "countif") && (ctx.NoAgg || !ctx.Agg && g.Cfg.Compilable && g.n("aggoutside", 4) > 0) {
			name = "isnull"
		}
		if name == "countif" {
			// the argument of an aggregate holds no aggregate
			inner := ctx
			inner.NoAgg = true
			sub = func() Expr { return g.Expr(depth-1, inner) }
		}
		ar := Builtins[name]
		if !g.Cfg.Compilable && g.chance("wrongarity", 6) {
			ar = g.n("arity", 5)
		} else if ar < 0 {
			ar = 1 + g.n("strcatn", 3)
		}
		c := &Call{Func: name}
		for i := 0; i < ar; i++ {
			c.Args = append(c.Args, sub())
		}
		c.TrailingComma = len(c.Args) > 0 && g.chance("trailingcomma", 8)
		return c
	}
	c := &Call{Func: pickFrom(g, "passthrough", PassThrough)}
	if len(ExtraPassThrough) > 0 && g.chance("learntfunc", 4) {
		c.Func = pickFrom(g, "learnt", ExtraPassThrough)
	}
	for i, n := 0, g.n("nargs", 4); i < n; i++ {
		c.Args = append(c.Args, sub())
	}
	c.TrailingComma = len(c.Args) > 0 && g.chance("trailingcomma", 8)
	return c
}

// Expr draws an expression of at most the given depth that prints (with its
// explicit Paren nodes) to text the grammar parses back to the same tree.
func (g *G) Expr(depth int, ctx ECtx) Expr {
	if depth <= 0 {
		return g.leaf(ctx)
	}
	sub := func() Expr { return g.Expr(depth-1, ctx) }
	switch k := g.n("node", 20); {
	case k < 8:
		op := pickFrom(g, "binop", BinaryOps)
		x, y := sub(), sub()
		return &Binary{Op: op, X: g.maybeParen(x, NeedsParenLeft(op, x)), Y: g.maybeParen(y, NeedsParenRight(op, y))}
	case k < 10:
		x := sub()
		return &Unary{Op: pickFrom(g, "sign", []string{"-", "+"}), X: g.maybeParen(x, !IsPrimary(x))}
	case k < 12:
		x := sub()
		in := &In{X: g.maybeParen(x, NeedsParenLeft("in", x))}
		for i, n := 0, 1+g.n("nvals", 3); i < n; i++ {
			in.Vals = append(in.Vals, sub())
		}
		if g.chance("twinvals", 5) {
			// a number and the string that spells it, and one value twice:
			// different constants stay different, repetitions change nothing
			tw := pickFrom(g, "twin", [][2]string{{"7", "7"}, {"0x7", "7"}, {"007", "7"}, {"1", "1"}, {"1.0", "1"}, {"2", "2"}})
			pair := []Expr{&Num{Text: tw[0]}, &Str{Value: tw[1]}}
			if g.chance("twinflip", 2) {
				pair[0], pair[1] = pair[1], pair[0]
			}
			in.Vals = append(in.Vals, pair...)
			if g.chance("twinrepeat", 2) {
				in.Vals = append(in.Vals, pair[0])
			}
		}
		return in
	case k < 14:
		x := sub()
		return &Index{X: g.maybeParen(x, !IsInnerPrimary(x)), I: sub()}
	case k < 17:
		return g.call(depth, ctx)
	case k < 18:
		return &Paren{X: sub()}
	default:
		return g.leaf(ctx)
	}
}

// ---- operators ----

func (g *G) depth() int { return 1 + g.n("depth", max(1, g.Cfg.MaxDepth)) }

func (g *G) term() *Term {
	return &Term{X: g.Expr(g.depth()-1, ECtx{}), Dir: pickFrom(g, "dir", []string{"", "", "asc", "desc"}), Nulls: pickFrom(g, "nulls", []string{"", "", "first", "last"})}
}

func (g *G) rowCount() Expr {
	switch k := g.n("rowcount", 10); {
	case k < 6:
		return &Num{Text: pickFrom(g, "int", intSpellings)}
	case k == 6 && len(g.scope) > 0:
		return ID(pickFrom(g, "scopename", g.scope))
	case k == 7:
		return &Unary{Op: "-", X: &Num{Text: "1"}}
	case k == 8:
		return &Paren{X: &Num{Text: pickFrom(g, "int", intSpellings)}}
	case k == 9 && !g.Cfg.Compilable:
		x := g.Expr(1, ECtx{})
		switch x.(type) {
		case *Num, *Str:
			// a bare non-integer literal row count is a documented error (C13)
			return &Paren{X: x}
		}
		return x
	default:
		return &Num{Text: pickFrom(g, "int", intSpellings)}
	}
}

func (g *G) cols(n int, nameReq, exprReq bool, ctx ECtx) []*Col {
	var out []*Col
	for i := 0; i < n; i++ {
		c := &Col{}
		if nameReq || g.n("named", 2) == 0 {
			id := g.Ident()
			c.Name = &id
		}
		if exprReq || c.Name == nil || g.n("withexpr", 2) == 0 {
			c.X = g.Expr(g.depth()-1, ctx)
		}
		out = append(out, c)
	}
	return out
}

// OpOfKind draws one operator of the given kind.
func (g *G) OpOfKind(kind string, joinDepth int) Op {
	switch kind {
	case "where":
		return &Where{Kw: pickFrom(g, "wherekw", []string{"where", "filter"}), Pred: g.Expr(g.depth(), ECtx{})}
	case "project":
		return &Project{Cols: g.cols(1+g.n("ncols", 3), true, false, ECtx{})}
	case "extend":
		return &Extend{Cols: g.cols(1+g.n("ncols", 3), false, true, ECtx{})}
	case "summarize":
		s := &Summarize{}
		na, nb := g.n("naggs", 3), g.n("nby", 3)
		if na+nb == 0 {
			na = 1
		}
		s.Cols = g.cols(na, false, true, ECtx{Agg: true})
		s.By = g.cols(nb, false, true, ECtx{})
		s.CommaBeforeBy = na > 0 && nb > 0 && g.chance("commabeforeby", 6)
		return s
	case "sort":
		s := &Sort{Kw: pickFrom(g, "sortkw", []string{"sort", "order"})}
		for i, n := 0, 1+g.n("nterms", 3); i < n; i++ {
			s.Terms = append(s.Terms, g.term())
		}
		return s
	case "take":
		return &Take{Kw: pickFrom(g, "takekw", []string{"take", "limit"}), N: g.rowCount()}
	case "top":
		return &Top{N: g.rowCount(), Term: g.term()}
	case "count":
		return &Count{}
	case "as":
		return &As{Name: g.Ident()}
	case "render":
		r := &Render{Chart: g.Ident()}
		for i, n := 0, g.n("nprops", 4); i < n; i++ {
			var v Expr
			switch k := g.n("propval", 6); {
			case k < 2:
				v = g.StrLit()
			case k < 3:
				v = &Num{Text: pickFrom(g, "num", numSpellings)}
			case k < 5:
				v = &QIdent{Parts: []Ident{g.Ident()}}
			default:
				v = g.Expr(1, ECtx{})
			}
			r.Props = append(r.Props, &Prop{Name: g.Ident(), Value: v})
		}
		return r
	case "join":
		j := &Join{Kind: pickFrom(g, "joinkind", []string{"", "inner", "innerunique", "leftouter"})}
		j.Right = g.Tabular(joinDepth - 1)
		for i, n := 0, 1+g.n("nconds", 3); i < n; i++ {
			switch g.n("condkind", 4) {
			case 0:
				j.Conds = append(j.Conds, &QIdent{Parts: []Ident{g.Ident()}})
			case 1:
				j.Conds = append(j.Conds, &Binary{Op: "==", X: &QIdent{Parts: []Ident{{Name: "$left"}, g.Ident()}}, Y: &QIdent{Parts: []Ident{{Name: "$right"}, g.Ident()}}})
			default:
				j.Conds = append(j.Conds, g.Expr(g.depth(), ECtx{Join: true}))
			}
		}
		return j
	}
	panic("gen: unknown operator kind " + kind)
}

// Tabular draws a query.
func (g *G) Tabular(joinDepth int) *Tabular {
	t := &Tabular{}
	if g.n("tablekind", 5) == 0 {
		t.Table = g.Ident()
		if !t.Table.Quoted && t.Table.Name == "let" {
			t.Table.Name = "T"
		}
	} else {
		t.Table = Ident{Name: pickFrom(g, "table", tableNames)}
	}
	n := g.n("nops", g.Cfg.MaxOps+1)
	for i := 0; i < n; i++ {
		kind := pickFrom(g, "opkind", OpKinds)
		if kind == "join" && joinDepth <= 0 {
			kind = "where"
		}
		if kind == "render" && g.Cfg.NoRender {
			kind = "count"
		}
		t.Ops = append(t.Ops, g.OpOfKind(kind, joinDepth))
	}
	return t
}

// LetStmt draws a let statement and, when it is usable, adds its name to scope.
func (g *G) LetStmt() *Let {
	name := pickFrom(g, "letname", []string{"n", "lim", "v1", "a", "k", "desired", "T", "Events"})
	if g.chance("freshlet", 2) {
		name = g.Fresh("L")
	}
	l := &Let{Name: Ident{Name: name, Quoted: g.chance("quotedletname", 6)}, X: g.Expr(g.n("letdepth", 3), ECtx{Let: true})}
	g.scope = append(g.scope, name)
	return l
}

// Program draws a whole program: lets, one query, optional lets after it,
// optional empty statements.
func (g *G) Program() *Program {
	p := &Program{}
	if g.Cfg.Lets {
		for i, n := 0, g.n("nlets", 4); i < n; i++ {
			p.Stmts = append(p.Stmts, g.LetStmt())
		}
	}
	p.Stmts = append(p.Stmts, g.Tabular(g.Cfg.JoinDepth))
	if g.Cfg.Lets && g.chance("letafter", 5) {
		saved := g.scope
		p.Stmts = append(p.Stmts, g.LetStmt())
		g.scope = saved
	}
	if g.chance("empties", 4) {
		p.EmptyBefore = make([]int, len(p.Stmts)+1)
		for i := range p.EmptyBefore {
			p.EmptyBefore[i] = g.n("nempty", 3)
		}
	}
	return p
}

// ---- layouts ----

var sepPool = []string{" ", " ", " ", " ", "", "", "\t", "\n", "  \n\t", "// c\n", " //;'`\"\n", "\r\n", "\u00a0", " // é ü\n", "\r", " \r ", "\v", "\f", "\u2028", "\u0085", " // a\u2028| take 1\n", "// b\u0085| where false\n", "// \u2029 second\n"}

// Seps draws separators for n tokens (n+1 entries).
func (g *G) Seps(n int) []string {
	out := make([]string, n+1)
	style := g.n("layoutstyle", 4)
	for i := range out {
		switch {
		case style == 0:
			out[i] = " "
		case style == 1 && i > 0 && i < n:
			out[i] = ""
		default:
			out[i] = pickFrom(g, "sep", sepPool)
		}
	}
	if style == 0 || style == 1 {
		out[0] = ""
	}
	if s := out[n]; len(s) > 0 && s[len(s)-1] == '\n' && g.chance("opencomment", 2) {
		out[n] = s[:len(s)-1] // a comment without final newline at end of input
	}
	return out
}

// LayoutClass summarises a layout for statistics.
func LayoutClass(src string) string {
	multi, comment, tab, nonascii := false, false, false, false
	for i := 0; i < len(src); i++ {
		switch {
		case src[i] == '\n':
			multi = true
		case src[i] == '\t':
			tab = true
		case src[i] >= 0x80:
			nonascii = true
		case src[i] == '/' && i+1 < len(src) && src[i+1] == '/':
			comment = true
		}
	}
	return fmt.Sprintf("multiline=%v,comment=%v,tab=%v,nonascii=%v", multi, comment, tab, nonascii)
}

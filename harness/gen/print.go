package gen

import (
	"strings"

	"verif/harness/reftok"
)

// Tok is one intended token of a printed program.
type Tok struct {
	Kind  reftok.Kind
	Text  string // source spelling
	Value string // identifier name / decoded string (numbers: the spelling)
	// OptCommaCall / OptCommaBy mark a comma the grammar allows to be absent
	// from the tree (trailing comma of a call; comma before `by`).
	Optional bool
}

// Printed is the result of printing a tree: tokens and, per node, the index
// range [First, Last] of its tokens.
type Printed struct {
	Toks   []Tok
	Extent map[any][2]int
}

type printer struct {
	toks   []Tok
	extent map[any][2]int
}

func (p *printer) emit(k reftok.Kind, text, value string) {
	p.toks = append(p.toks, Tok{Kind: k, Text: text, Value: value})
}

func (p *printer) sym(k reftok.Kind, text string) { p.emit(k, text, "") }

func (p *printer) word(w string) {
	switch w {
	case "and":
		p.sym(reftok.And, w)
	case "or":
		p.sym(reftok.Or, w)
	case "in":
		p.sym(reftok.In, w)
	case "by":
		p.sym(reftok.By, w)
	default:
		p.emit(reftok.Ident, w, w)
	}
}

func (p *printer) mark(node any, first int) {
	p.extent[node] = [2]int{first, len(p.toks) - 1}
}

// QuoteIdent spells a quoted identifier.
func QuoteIdent(name string) string {
	return "`" + strings.ReplaceAll(name, "`", "``") + "`"
}

func (p *printer) ident(id Ident) {
	if id.Quoted {
		p.emit(reftok.QIdent, QuoteIdent(id.Name), id.Name)
	} else {
		p.word(id.Name)
	}
}

// DefaultSpelling is the spelling of a literal whose Raw is not given: a pure
// function of the value that varies the quote character and adds superfluous
// escapes, so that checks that only choose values still meet every spelling.
func DefaultSpelling(v string) string {
	h := uint32(2166136261)
	for i := 0; i < len(v); i++ {
		h = (h ^ uint32(v[i])) * 16777619
	}
	q := byte('"')
	if h&1 == 1 {
		q = '\''
	}
	if (h>>1)%3 != 0 {
		return QuoteString(v, q)
	}
	return SpellWith(v, q, func(i int) bool { return (h>>3+uint32(i)*2654435761)%4 == 0 })
}

// QuoteString spells a string literal with the given quote character, using
// the escapes the lexer understands (\\, \q, \n, \t). A raw tab is kept raw.
func QuoteString(v string, q byte) string {
	return SpellWith(v, q, nil)
}

// SpellWith is QuoteString with a superfluous backslash before the bytes
// extra selects: the lexer reads `\c` as c for every c but n, t and a newline.
func SpellWith(v string, q byte, extra func(i int) bool) string {
	var sb strings.Builder
	sb.WriteByte(q)
	for i := 0; i < len(v); i++ {
		c := v[i]
		switch {
		case extra != nil && c != '\\' && c != q && c != '\n' && c != '\t' && c != 'n' && c != 't' && c < 0x80 && extra(i):
			sb.WriteByte('\\')
			sb.WriteByte(c)
		case c == '\\':
			sb.WriteString(`\\`)
		case c == q:
			sb.WriteByte('\\')
			sb.WriteByte(q)
		case c == '\n':
			sb.WriteString(`\n`)
		default:
			sb.WriteByte(c)
		}
	}
	sb.WriteByte(q)
	return sb.String()
}

var opKinds = map[string]reftok.Kind{
	"+": reftok.Plus, "-": reftok.Minus, "*": reftok.Star, "/": reftok.Slash, "%": reftok.Mod,
	"==": reftok.Eq, "!=": reftok.NE, "<": reftok.LT, "<=": reftok.LE, ">": reftok.GT, ">=": reftok.GE,
	"=~": reftok.CIEq, "!~": reftok.CINE, "and": reftok.And, "or": reftok.Or,
}

func (p *printer) expr(x Expr) {
	first := len(p.toks)
	switch x := x.(type) {
	case *QIdent:
		for i, part := range x.Parts {
			if i > 0 {
				p.sym(reftok.Dot, ".")
			}
			p.ident(part)
		}
	case *Num:
		p.emit(reftok.Number, x.Text, x.Text)
	case *Str:
		raw := x.Raw
		if raw == "" {
			raw = DefaultSpelling(x.Value)
		}
		p.emit(reftok.String, raw, x.Value)
	case *Unary:
		p.sym(opKinds[x.Op], x.Op)
		p.expr(x.X)
	case *Binary:
		p.expr(x.X)
		p.sym(opKinds[x.Op], x.Op)
		p.expr(x.Y)
	case *In:
		p.expr(x.X)
		p.sym(reftok.In, "in")
		p.sym(reftok.LParen, "(")
		p.list(x.Vals)
		p.sym(reftok.RParen, ")")
	case *Paren:
		p.sym(reftok.LParen, "(")
		p.expr(x.X)
		p.sym(reftok.RParen, ")")
	case *Index:
		p.expr(x.X)
		p.sym(reftok.LBracket, "[")
		p.expr(x.I)
		p.sym(reftok.RBracket, "]")
	case *Call:
		p.word(x.Func)
		p.sym(reftok.LParen, "(")
		p.list(x.Args)
		if x.TrailingComma && len(x.Args) > 0 {
			p.sym(reftok.Comma, ",")
			p.toks[len(p.toks)-1].Optional = true
		}
		p.sym(reftok.RParen, ")")
	default:
		panic("gen: print of unknown expression")
	}
	p.mark(x, first)
}

func (p *printer) list(xs []Expr) {
	for i, x := range xs {
		if i > 0 {
			p.sym(reftok.Comma, ",")
		}
		p.expr(x)
	}
}

func (p *printer) cols(cs []*Col) {
	for i, c := range cs {
		if i > 0 {
			p.sym(reftok.Comma, ",")
		}
		first := len(p.toks)
		if c.Name != nil {
			p.ident(*c.Name)
			if c.X != nil {
				p.sym(reftok.Assign, "=")
			}
		}
		if c.X != nil {
			p.expr(c.X)
		}
		p.mark(c, first)
	}
}

func (p *printer) term(t *Term) {
	first := len(p.toks)
	p.expr(t.X)
	if t.Dir != "" {
		p.word(t.Dir)
	}
	if t.Nulls != "" {
		p.word("nulls")
		p.word(t.Nulls)
	}
	p.mark(t, first)
}

func pick(kw, def string) string {
	if kw == "" {
		return def
	}
	return kw
}

func (p *printer) op(op Op) {
	first := len(p.toks)
	p.sym(reftok.Pipe, "|")
	switch op := op.(type) {
	case *Where:
		p.word(pick(op.Kw, "where"))
		p.expr(op.Pred)
	case *Project:
		p.word("project")
		p.cols(op.Cols)
	case *Extend:
		p.word("extend")
		p.cols(op.Cols)
	case *Summarize:
		p.word("summarize")
		p.cols(op.Cols)
		if len(op.By) > 0 {
			if op.CommaBeforeBy && len(op.Cols) > 0 {
				p.sym(reftok.Comma, ",")
				p.toks[len(p.toks)-1].Optional = true
			}
			p.word("by")
			p.cols(op.By)
		}
	case *Sort:
		p.word(pick(op.Kw, "sort"))
		p.word("by")
		for i, t := range op.Terms {
			if i > 0 {
				p.sym(reftok.Comma, ",")
			}
			p.term(t)
		}
	case *Take:
		p.word(pick(op.Kw, "take"))
		p.expr(op.N)
	case *Top:
		p.word("top")
		p.expr(op.N)
		p.word("by")
		p.term(op.Term)
	case *Count:
		p.word("count")
	case *As:
		p.word("as")
		p.ident(op.Name)
	case *Render:
		p.word("render")
		p.ident(op.Chart)
		if len(op.Props) > 0 {
			p.word("with")
			p.sym(reftok.LParen, "(")
			for i, pr := range op.Props {
				if i > 0 {
					p.sym(reftok.Comma, ",")
				}
				pf := len(p.toks)
				p.ident(pr.Name)
				p.sym(reftok.Assign, "=")
				p.expr(pr.Value)
				p.mark(pr, pf)
			}
			p.sym(reftok.RParen, ")")
		}
	case *Join:
		p.word("join")
		if op.Kind != "" {
			p.word("kind")
			p.sym(reftok.Assign, "=")
			p.word(op.Kind)
		}
		p.sym(reftok.LParen, "(")
		p.tabular(op.Right)
		p.sym(reftok.RParen, ")")
		p.word("on")
		p.list(op.Conds)
	default:
		panic("gen: print of unknown operator")
	}
	p.mark(op, first)
}

func (p *printer) tabular(t *Tabular) {
	first := len(p.toks)
	p.ident(t.Table)
	for _, op := range t.Ops {
		p.op(op)
	}
	p.mark(t, first)
}

func (p *printer) stmt(s Stmt) {
	switch s := s.(type) {
	case *Tabular:
		p.tabular(s)
	case *Let:
		first := len(p.toks)
		p.word("let")
		p.ident(s.Name)
		p.sym(reftok.Assign, "=")
		p.expr(s.X)
		p.mark(s, first)
	}
}

// Print prints a program to its intended token list.
func Print(prog *Program) *Printed {
	p := &printer{extent: map[any][2]int{}}
	semis := func(n int) {
		for i := 0; i < n; i++ {
			p.sym(reftok.Semi, ";")
		}
	}
	for i, s := range prog.Stmts {
		if i < len(prog.EmptyBefore) {
			semis(prog.EmptyBefore[i])
		}
		if i > 0 {
			p.sym(reftok.Semi, ";")
		}
		p.stmt(s)
	}
	if len(prog.EmptyBefore) > len(prog.Stmts) {
		semis(prog.EmptyBefore[len(prog.Stmts)])
	}
	return &Printed{Toks: p.toks, Extent: p.extent}
}

// PrintExpr prints one expression.
func PrintExpr(x Expr) *Printed {
	p := &printer{extent: map[any][2]int{}}
	p.expr(x)
	return &Printed{Toks: p.toks, Extent: p.extent}
}

// PrintTabular prints one query.
func PrintTabular(t *Tabular) *Printed {
	return Print(&Program{Stmts: []Stmt{t}})
}

// Merges reports whether writing a directly followed by b changes how either
// is scanned (decided by the reference tokenizer, i.e. by construction, not
// by rejection of generated cases).
func Merges(a, b Tok) bool {
	toks := reftok.Scan(a.Text + b.Text)
	if len(toks) != 2 {
		return true
	}
	return !(toks[0].Kind == a.Kind && toks[0].Start == 0 && toks[0].End == len(a.Text) &&
		toks[1].Kind == b.Kind && toks[1].End == len(a.Text)+len(b.Text))
}

// sepOK reports whether a, the separator and b written one after the other
// scan as exactly the two tokens a and b (so the separator neither merges with
// a neighbour, e.g. "/" + "// c\n", nor lets the neighbours merge).
func sepOK(a Tok, sep string, b Tok) bool {
	toks := reftok.Scan(a.Text + sep + b.Text)
	if len(toks) != 2 {
		return false
	}
	return toks[0].Kind == a.Kind && toks[0].Start == 0 && toks[0].End == len(a.Text) &&
		toks[1].Kind == b.Kind && toks[1].Start == len(a.Text)+len(sep) && toks[1].End == len(a.Text)+len(sep)+len(b.Text)
}

// Laid is a program laid out as source text.
type Laid struct {
	Src   string
	Spans [][2]int // byte span of each token
	*Printed
}

// Layout joins the tokens with the given separators: seps[i] goes before token
// i, seps[len(toks)] after the last token; missing entries mean " " between
// tokens and "" at the ends. An empty separator between two tokens that would
// merge is replaced by a space.
func Layout(pr *Printed, seps []string) *Laid {
	var sb strings.Builder
	spans := make([][2]int, len(pr.Toks))
	sep := func(i int) string {
		if i < len(seps) {
			return seps[i]
		}
		if i == 0 || i == len(pr.Toks) {
			return ""
		}
		return " "
	}
	for i, t := range pr.Toks {
		s := sep(i)
		if i > 0 && !sepOK(pr.Toks[i-1], s, t) {
			if sepOK(pr.Toks[i-1], " "+s, t) {
				s = " " + s
			} else {
				s = " "
			}
		}
		sb.WriteString(s)
		spans[i] = [2]int{sb.Len(), sb.Len() + len(t.Text)}
		sb.WriteString(t.Text)
	}
	sb.WriteString(sep(len(pr.Toks)))
	return &Laid{Src: sb.String(), Spans: spans, Printed: pr}
}

// Source prints a program with single spaces.
func Source(prog *Program) string { return Layout(Print(prog), nil).Src }

// TabularSource prints one query with single spaces.
func TabularSource(t *Tabular) string { return Layout(PrintTabular(t), nil).Src }

// ExprSource prints one expression with single spaces.
func ExprSource(x Expr) string { return Layout(PrintExpr(x), nil).Src }

// Slice returns the source text of a node's extent in a laid-out program.
func (l *Laid) Slice(node any) (string, bool) {
	e, ok := l.Extent[node]
	if !ok || e[0] > e[1] {
		return "", false
	}
	return l.Src[l.Spans[e[0]][0]:l.Spans[e[1]][1]], true
}

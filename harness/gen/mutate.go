package gen

import (
	"verif/harness/reftok"
)

func symTok(k reftok.Kind, text string) Tok { return Tok{Kind: k, Text: text} }

// insertPool holds tokens (and error lexemes) for token-level insertion.
var insertPool = []Tok{
	symTok(reftok.Pipe, "|"), symTok(reftok.Comma, ","), symTok(reftok.Comma, ","), symTok(reftok.Semi, ";"), symTok(reftok.Dot, "."),
	symTok(reftok.LParen, "("), symTok(reftok.RParen, ")"), symTok(reftok.LBracket, "["), symTok(reftok.RBracket, "]"),
	symTok(reftok.Assign, "="), symTok(reftok.Eq, "=="), symTok(reftok.NE, "!="), symTok(reftok.LT, "<"), symTok(reftok.GE, ">="),
	symTok(reftok.Plus, "+"), symTok(reftok.Minus, "-"), symTok(reftok.Star, "*"), symTok(reftok.Slash, "/"), symTok(reftok.Mod, "%"),
	symTok(reftok.And, "and"), symTok(reftok.Or, "or"), symTok(reftok.In, "in"), symTok(reftok.By, "by"),
	{Kind: reftok.Ident, Text: "a", Value: "a"}, {Kind: reftok.Ident, Text: "x", Value: "x"}, {Kind: reftok.Ident, Text: "count", Value: "count"},
	{Kind: reftok.Ident, Text: "where", Value: "where"}, {Kind: reftok.Ident, Text: "take", Value: "take"}, {Kind: reftok.Ident, Text: "on", Value: "on"},
	{Kind: reftok.Ident, Text: "asc", Value: "asc"}, {Kind: reftok.Ident, Text: "nulls", Value: "nulls"}, {Kind: reftok.Ident, Text: "first", Value: "first"},
	{Kind: reftok.Ident, Text: "kind", Value: "kind"}, {Kind: reftok.Ident, Text: "with", Value: "with"}, {Kind: reftok.Ident, Text: "let", Value: "let"},
	{Kind: reftok.Ident, Text: "summarize", Value: "summarize"}, {Kind: reftok.Ident, Text: "join", Value: "join"}, {Kind: reftok.Ident, Text: "f", Value: "f"},
	{Kind: reftok.QIdent, Text: "`q i`", Value: "q i"}, {Kind: reftok.Number, Text: "1", Value: "1"}, {Kind: reftok.Number, Text: "2.5", Value: "2.5"},
	{Kind: reftok.String, Text: "'s'", Value: "s"},
	{Kind: reftok.Error, Text: "!"}, {Kind: reftok.Error, Text: "0x"}, {Kind: reftok.Error, Text: "#"}, {Kind: reftok.Error, Text: "\\"},
	{Kind: reftok.Error, Text: "\xff"}, {Kind: reftok.Error, Text: "{"}, {Kind: reftok.Error, Text: "@"},
	{Kind: reftok.Error, Text: "0x10000000000000001"}, {Kind: reftok.Error, Text: "@\"v\""},
	{Kind: reftok.Error, Text: "\ufeff"}, {Kind: reftok.Error, Text: "\u200b"}, {Kind: reftok.Error, Text: "\ufffd"},
	{Kind: reftok.Error, Text: "0.5.5"}, {Kind: reftok.Error, Text: "1e+"}, {Kind: reftok.Error, Text: "0x00000000000000001x"},
}

// MutateTokens applies one to three token-level edits: deletion, insertion,
// duplication, transposition, truncation, replacement. The bool reports
// whether the token list changed.
func (g *G) MutateTokens(toks []Tok) ([]Tok, string) {
	out := append([]Tok{}, toks...)
	kinds := ""
	for e, n := 0, 1+g.n("nedits", 3); e < n; e++ {
		if len(out) == 0 {
			out = append(out, pickFrom(g, "ins", insertPool))
			kinds += "insert,"
			continue
		}
		i := g.n("pos", len(out))
		switch g.n("edit", 9) {
		case 7, 8:
			// bracket surgery: empty a bracket pair, or replace its contents
			// by one token
			var opens []int
			for k, t := range out {
				if t.Kind == reftok.LParen || t.Kind == reftok.LBracket {
					opens = append(opens, k)
				}
			}
			if len(opens) == 0 {
				out = append(out, pickFrom(g, "ins", insertPool))
				kinds += "append,"
				continue
			}
			o := opens[g.n("bracket", len(opens))]
			depth, c := 0, -1
			for k := o; k < len(out); k++ {
				switch out[k].Kind {
				case reftok.LParen, reftok.LBracket:
					depth++
				case reftok.RParen, reftok.RBracket:
					depth--
				}
				if depth == 0 {
					c = k
					break
				}
			}
			if c < 0 {
				c = len(out)
			}
			var repl []Tok
			if g.n("fill", 2) == 0 {
				repl = []Tok{pickFrom(g, "ins", insertPool)}
			}
			out = append(out[:o+1], append(repl, out[c:]...)...)
			kinds += "bracket,"
		case 0:
			out = append(out[:i], out[i+1:]...)
			kinds += "delete,"
		case 1:
			t := pickFrom(g, "ins", insertPool)
			out = append(out[:i], append([]Tok{t}, out[i:]...)...)
			kinds += "insert,"
		case 2:
			out = append(out[:i], append([]Tok{out[i]}, out[i:]...)...)
			kinds += "duplicate,"
		case 3:
			if i+1 < len(out) {
				out[i], out[i+1] = out[i+1], out[i]
			}
			kinds += "transpose,"
		case 4:
			out = out[:i]
			kinds += "truncate,"
		case 5:
			out[i] = pickFrom(g, "ins", insertPool)
			kinds += "replace,"
		default:
			// append at the end: trailing garbage
			out = append(out, pickFrom(g, "ins", insertPool))
			kinds += "append,"
		}
	}
	return out, kinds
}

var hostileBytes = []string{"!", "0x", "1e+", "\\", "'", "\"", "`", "\x00", "\xff", " ", "\ufeff", "//", "\n", ";", "(", ")", "[", "]", ",", "|", "=", "$", "--", "/*", "{", "}", "é", "1e", "..", "''", "0x1g"}

// MutateBytes splices hostile constants into / removes bytes from a source.
func (g *G) MutateBytes(src string) string {
	b := []byte(src)
	for e, n := 0, 1+g.n("nbyteedits", 3); e < n; e++ {
		i := 0
		if len(b) > 0 {
			i = g.n("bpos", len(b)+1)
		}
		switch g.n("bedit", 4) {
		case 0:
			if i < len(b) {
				b = append(b[:i], b[i+1:]...)
			}
		case 1:
			ins := pickFrom(g, "hostile", hostileBytes)
			b = append(b[:i], append([]byte(ins), b[i:]...)...)
		case 2:
			if i < len(b) {
				b = b[:i]
			}
		default:
			if i < len(b) {
				ins := pickFrom(g, "hostile", hostileBytes)
				b = append(b[:i], append([]byte(ins), b[i+1:]...)...)
			}
		}
	}
	return string(b)
}

// TokensOnly wraps a token list as a Printed without extents.
func TokensOnly(toks []Tok) *Printed { return &Printed{Toks: toks, Extent: map[any][2]int{}} }

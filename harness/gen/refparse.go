package gen

import (
	"fmt"

	"verif/harness/reftok"
)

// RefParseExpr is the reference expression parser, written from the statement
// of property C07 (not from the implementation): binary operators group by
// precedence (or < and < comparisons < + - < * / %) and to the left among
// equals; `x in (list)` is a complete test at comparison level to which any
// following operator applies as a whole; a sign binds tighter than any binary
// operator and looser than indexing and calls (it applies to a primary with at
// most one index suffix); calls are written on unquoted single identifiers; a
// trailing comma is tolerated directly before the ')' of a call.
func RefParseExpr(toks []Tok) (x Expr, err error) {
	p := &refParser{toks: toks}
	defer func() {
		if r := recover(); r != nil {
			if e, ok := r.(refError); ok {
				x, err = nil, e
				return
			}
			panic(r)
		}
	}()
	x = p.expr(0)
	if p.pos != len(p.toks) {
		p.fail("trailing tokens")
	}
	return x, nil
}

type refError struct{ msg string }

func (e refError) Error() string { return e.msg }

type refParser struct {
	toks []Tok
	pos  int
}

func (p *refParser) fail(msg string) {
	panic(refError{fmt.Sprintf("reference parser: %s at token %d", msg, p.pos)})
}

func (p *refParser) peek() (Tok, bool) {
	if p.pos < len(p.toks) {
		return p.toks[p.pos], true
	}
	return Tok{}, false
}

func (p *refParser) accept(k reftok.Kind) bool {
	if t, ok := p.peek(); ok && t.Kind == k {
		p.pos++
		return true
	}
	return false
}

func (p *refParser) expect(k reftok.Kind, what string) {
	if !p.accept(k) {
		p.fail("expected " + what)
	}
}

var binSpelling = map[reftok.Kind]string{
	reftok.Or: "or", reftok.And: "and", reftok.Eq: "==", reftok.NE: "!=", reftok.LT: "<", reftok.LE: "<=", reftok.GT: ">", reftok.GE: ">=",
	reftok.CIEq: "=~", reftok.CINE: "!~", reftok.In: "in", reftok.Plus: "+", reftok.Minus: "-", reftok.Star: "*", reftok.Slash: "/", reftok.Mod: "%",
}

func (p *refParser) expr(minPrec int) Expr {
	left := p.unary()
	for {
		t, ok := p.peek()
		if !ok {
			return left
		}
		op, isOp := binSpelling[t.Kind]
		if !isOp {
			return left
		}
		prec := Prec(op)
		if prec < minPrec {
			return left
		}
		p.pos++
		if op == "in" {
			p.expect(reftok.LParen, "'(' after in")
			in := &In{X: left}
			in.Vals = append(in.Vals, p.expr(0))
			for p.accept(reftok.Comma) {
				in.Vals = append(in.Vals, p.expr(0))
			}
			p.expect(reftok.RParen, "')' closing the in list")
			left = in
			continue
		}
		right := p.expr(prec + 1)
		left = &Binary{Op: op, X: left, Y: right}
	}
}

func (p *refParser) unary() Expr {
	if t, ok := p.peek(); ok && (t.Kind == reftok.Plus || t.Kind == reftok.Minus) {
		p.pos++
		return &Unary{Op: t.Text, X: p.primary()}
	}
	return p.primary()
}

func (p *refParser) primary() Expr {
	x := p.inner()
	if p.accept(reftok.LBracket) {
		i := p.expr(0)
		p.expect(reftok.RBracket, "']'")
		x = &Index{X: x, I: i}
	}
	return x
}

func (p *refParser) inner() Expr {
	t, ok := p.peek()
	if !ok {
		p.fail("expected expression, got end of input")
	}
	switch t.Kind {
	case reftok.Number:
		p.pos++
		return &Num{Text: t.Text}
	case reftok.String:
		p.pos++
		return &Str{Value: t.Value, Raw: t.Text}
	case reftok.Ident, reftok.QIdent:
		p.pos++
		q := &QIdent{Parts: []Ident{{Name: t.Value, Quoted: t.Kind == reftok.QIdent}}}
		for p.accept(reftok.Dot) {
			n, ok := p.peek()
			if !ok || (n.Kind != reftok.Ident && n.Kind != reftok.QIdent) {
				p.fail("expected identifier after '.'")
			}
			p.pos++
			q.Parts = append(q.Parts, Ident{Name: n.Value, Quoted: n.Kind == reftok.QIdent})
		}
		if len(q.Parts) == 1 && t.Kind == reftok.Ident && p.accept(reftok.LParen) {
			c := &Call{Func: t.Value}
			if !p.accept(reftok.RParen) {
				for {
					c.Args = append(c.Args, p.expr(0))
					if !p.accept(reftok.Comma) {
						break
					}
					if nt, ok := p.peek(); ok && nt.Kind == reftok.RParen {
						c.TrailingComma = true
						break
					}
				}
				p.expect(reftok.RParen, "')' closing the call")
			}
			return c
		}
		return q
	case reftok.LParen:
		p.pos++
		x := p.expr(0)
		p.expect(reftok.RParen, "')'")
		return &Paren{X: x}
	}
	p.fail("expected expression")
	return nil
}

// Package reftok is a reference tokenizer for PQL written from the statement of
// property C09 and the TokenKind doc comments of the parser package, not from
// the scanner's code: maximal munch, identifiers [A-Za-z_$][A-Za-z0-9_]*,
// and/or/in/by keywords, backtick identifiers with doubled backticks (one
// line), single- or double-quoted one-line strings with backslash escapes
// (\n, \t, anything else stands for itself; raw bytes are preserved), numbers
// digits[.digits*][e[+-]digits] | .digits+[exp] | 0[xX]hex+ with exact
// rational values, one- and two-character operators, Unicode white space and
// //-comments skipped, and exactly one error token per unrecognisable piece.
package reftok

import (
	"math/big"
	"strings"
	"unicode"
	"unicode/utf8"
)

type Kind int

const (
	Ident Kind = iota + 1
	QIdent
	Number
	String
	And
	Or
	Pipe
	Dot
	Comma
	Plus
	Minus
	Star
	Slash
	Mod
	Assign
	Eq
	NE
	LT
	LE
	GT
	GE
	CIEq
	CINE
	LParen
	RParen
	LBracket
	RBracket
	In
	By
	Semi
	Error Kind = -1
)

type Token struct {
	Kind       Kind
	Start, End int
	Value      string   // ident name, decoded string, quoted ident content
	Num        *big.Rat // numeric value for Number
}

func isAlpha(c byte) bool { return 'a' <= c && c <= 'z' || 'A' <= c && c <= 'Z' }
func isDigit(c byte) bool { return '0' <= c && c <= '9' }
func isHex(c byte) bool {
	return isDigit(c) || 'a' <= c && c <= 'f' || 'A' <= c && c <= 'F'
}

var keywords = map[string]Kind{"and": And, "or": Or, "in": In, "by": By}

var k2 = map[string]Kind{"==": Eq, "=~": CIEq, "!=": NE, "!~": CINE, "<=": LE, ">=": GE}

var k1 = map[byte]Kind{'|': Pipe, ',': Comma, '+': Plus, '-': Minus, '*': Star, '/': Slash, '%': Mod,
	'=': Assign, '<': LT, '>': GT, '(': LParen, ')': RParen, '[': LBracket, ']': RBracket, ';': Semi}

func Scan(s string) []Token {
	var out []Token
	i := 0
	n := len(s)
	for i < n {
		c := s[i]
		// whitespace (by rune)
		r, w := utf8.DecodeRuneInString(s[i:])
		if !(r == utf8.RuneError && w == 1) && unicode.IsSpace(r) {
			i += w
			continue
		}
		switch {
		case c == '/' && i+1 < n && s[i+1] == '/':
			j := strings.IndexByte(s[i:], '\n')
			if j < 0 {
				i = n
			} else {
				i += j + 1
			}
		case isAlpha(c) || c == '_' || c == '$':
			j := i + 1
			for j < n && (isAlpha(s[j]) || isDigit(s[j]) || s[j] == '_') {
				j++
			}
			t := Token{Kind: Ident, Start: i, End: j, Value: s[i:j]}
			if k, ok := keywords[t.Value]; ok {
				t.Kind, t.Value = k, ""
			}
			out = append(out, t)
			i = j
		case isDigit(c) || c == '.' && i+1 < n && isDigit(s[i+1]):
			t := number(s, i)
			out = append(out, t)
			i = t.End
		case c == '.':
			out = append(out, Token{Kind: Dot, Start: i, End: i + 1})
			i++
		case c == '\'' || c == '"':
			t := str(s, i)
			out = append(out, t)
			i = t.End
		case c == '`':
			t := qident(s, i)
			out = append(out, t)
			i = t.End
		default:
			two := ""
			if i+1 < n {
				two = s[i : i+2]
			}
			if k, ok := k2[two]; ok {
				out = append(out, Token{Kind: k, Start: i, End: i + 2})
				i += 2
				continue
			}
			if k, ok := k1[c]; ok {
				out = append(out, Token{Kind: k, Start: i, End: i + 1})
				i++
				continue
			}
			// unrecognisable piece: one rune (or one invalid byte)
			out = append(out, Token{Kind: Error, Start: i, End: i + w})
			i += w
		}
	}
	return out
}

func number(s string, i int) Token {
	n := len(s)
	start := i
	if s[i] == '0' && i+1 < n && (s[i+1] == 'x' || s[i+1] == 'X') {
		j := i + 2
		for j < n && isHex(s[j]) {
			j++
		}
		if j == i+2 {
			return Token{Kind: Error, Start: start, End: i + 2}
		}
		v, ok := new(big.Int).SetString(s[i+2:j], 16)
		if !ok || v.BitLen() > 64 {
			return Token{Kind: Error, Start: start, End: j}
		}
		return Token{Kind: Number, Start: start, End: j, Num: new(big.Rat).SetInt(v)}
	}
	j := i
	for j < n && isDigit(s[j]) {
		j++
	}
	if j < n && s[j] == '.' {
		j++
		for j < n && isDigit(s[j]) {
			j++
		}
	}
	// exponent, only if complete
	if j < n && (s[j] == 'e' || s[j] == 'E') {
		k := j + 1
		if k < n && (s[k] == '+' || s[k] == '-') {
			k++
		}
		if k < n && isDigit(s[k]) {
			for k < n && isDigit(s[k]) {
				k++
			}
			j = k
		}
	}
	return Token{Kind: Number, Start: start, End: j, Num: ParseDecimal(s[start:j])}
}

// ParseDecimal converts digits[.digits][e[+-]digits] (any part optional except
// at least one digit somewhere) to an exact rational.
func ParseDecimal(lex string) *big.Rat {
	mant := lex
	exp := 0
	if k := strings.IndexAny(lex, "eE"); k >= 0 {
		mant = lex[:k]
		e := lex[k+1:]
		neg := false
		if len(e) > 0 && (e[0] == '+' || e[0] == '-') {
			neg = e[0] == '-'
			e = e[1:]
		}
		e = strings.TrimLeft(e, "0")
		if len(e) > 5 {
			e = "99999" // clamp: beyond any float64 either way; comparisons only need agreement
		}
		for _, d := range e {
			exp = exp*10 + int(d-'0')
		}
		if neg {
			exp = -exp
		}
	}
	frac := 0
	if k := strings.IndexByte(mant, '.'); k >= 0 {
		frac = len(mant) - k - 1
		mant = mant[:k] + mant[k+1:]
	}
	if mant == "" {
		mant = "0"
	}
	m, ok := new(big.Int).SetString(mant, 10)
	if !ok {
		return nil
	}
	r := new(big.Rat).SetInt(m)
	e := exp - frac
	p := new(big.Int).Exp(big.NewInt(10), big.NewInt(int64(abs(e))), nil)
	if e >= 0 {
		r.Mul(r, new(big.Rat).SetInt(p))
	} else {
		r.Quo(r, new(big.Rat).SetInt(p))
	}
	return r
}

func abs(x int) int {
	if x < 0 {
		return -x
	}
	return x
}

func str(s string, i int) Token {
	n := len(s)
	q := s[i]
	var b strings.Builder
	j := i + 1
	for j < n {
		c := s[j]
		switch {
		case c == q:
			return Token{Kind: String, Start: i, End: j + 1, Value: b.String()}
		case c == '\n':
			return Token{Kind: Error, Start: i, End: j}
		case c == '\\':
			if j+1 >= n {
				return Token{Kind: Error, Start: i, End: n}
			}
			d := s[j+1]
			switch d {
			case '\n':
				return Token{Kind: Error, Start: i, End: j + 1}
			case 'n':
				b.WriteByte('\n')
				j += 2
			case 't':
				b.WriteByte('\t')
				j += 2
			default:
				_, w := utf8.DecodeRuneInString(s[j+1:])
				b.WriteString(s[j+1 : j+1+w])
				j += 1 + w
			}
		default:
			b.WriteByte(c)
			j++
		}
	}
	return Token{Kind: Error, Start: i, End: n}
}

func qident(s string, i int) Token {
	n := len(s)
	j := i + 1
	var b strings.Builder
	for j < n {
		c := s[j]
		switch {
		case c == '`':
			if j+1 < n && s[j+1] == '`' {
				b.WriteByte('`')
				j += 2
				continue
			}
			return Token{Kind: QIdent, Start: i, End: j + 1, Value: b.String()}
		case c == '\n':
			return Token{Kind: Error, Start: i, End: j}
		default:
			b.WriteByte(c)
			j++
		}
	}
	return Token{Kind: Error, Start: i, End: n}
}

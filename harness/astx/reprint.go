package astx

import (
	"github.com/runreveal/pql/parser"
)

// RTok is one token of a re-printed tree.
type RTok struct {
	Kind  parser.TokenKind
	Value string   // identifier name, literal value
	Alts  []string // for keyword identifiers: the accepted spellings
	// CloseCall marks the ')' that closes a call with at least one argument:
	// the source may hold one extra comma directly before it.
	CloseCall bool
	// SummarizeBy marks the `by` of a summarize that has aggregate columns: the
	// source may hold one extra comma directly before it.
	SummarizeBy bool
	// Missing marks a part the tree should have but does not (nil where the
	// grammar requires something); it never matches a source token.
	Missing string
}

type reprinter struct{ out []RTok }

func (r *reprinter) sym(k parser.TokenKind) { r.out = append(r.out, RTok{Kind: k}) }
func (r *reprinter) kw(alts ...string) {
	r.out = append(r.out, RTok{Kind: parser.TokenIdentifier, Value: alts[0], Alts: alts})
}
func (r *reprinter) missing(what string) { r.out = append(r.out, RTok{Missing: what}) }

func (r *reprinter) ident(id *parser.Ident, what string) {
	if id == nil {
		r.missing(what)
		return
	}
	if id.Quoted {
		r.out = append(r.out, RTok{Kind: parser.TokenQuotedIdentifier, Value: id.Name})
	} else {
		r.out = append(r.out, RTok{Kind: parser.TokenIdentifier, Value: id.Name})
	}
}

func (r *reprinter) exprs(xs []parser.Expr) {
	for i, x := range xs {
		if i > 0 {
			r.sym(parser.TokenComma)
		}
		r.expr(x)
	}
}

func (r *reprinter) expr(x parser.Expr) {
	if IsNilNode(x) {
		r.missing("expression")
		return
	}
	switch x := x.(type) {
	case *parser.QualifiedIdent:
		if len(x.Parts) == 0 {
			r.missing("identifier parts")
		}
		for i, p := range x.Parts {
			if i > 0 {
				r.sym(parser.TokenDot)
			}
			r.ident(p, "identifier part")
		}
	case *parser.BasicLit:
		r.out = append(r.out, RTok{Kind: x.Kind, Value: x.Value})
	case *parser.UnaryExpr:
		r.sym(x.Op)
		r.expr(x.X)
	case *parser.BinaryExpr:
		r.expr(x.X)
		r.sym(x.Op)
		r.expr(x.Y)
	case *parser.InExpr:
		r.expr(x.X)
		r.sym(parser.TokenIn)
		r.sym(parser.TokenLParen)
		r.exprs(x.Vals)
		r.sym(parser.TokenRParen)
	case *parser.ParenExpr:
		r.sym(parser.TokenLParen)
		r.expr(x.X)
		r.sym(parser.TokenRParen)
	case *parser.IndexExpr:
		r.expr(x.X)
		r.sym(parser.TokenLBracket)
		r.expr(x.Index)
		r.sym(parser.TokenRBracket)
	case *parser.CallExpr:
		r.ident(x.Func, "function name")
		r.sym(parser.TokenLParen)
		r.exprs(x.Args)
		r.out = append(r.out, RTok{Kind: parser.TokenRParen, CloseCall: len(x.Args) > 0})
	default:
		r.missing("unknown expression type")
	}
}

func (r *reprinter) term(t *parser.SortTerm) {
	if t == nil {
		r.missing("sort term")
		return
	}
	r.expr(t.X)
	if t.AscDescSpan.IsValid() {
		if t.Asc {
			r.kw("asc")
		} else {
			r.kw("desc")
		}
	}
	if t.NullsSpan.IsValid() {
		r.kw("nulls")
		if t.NullsFirst {
			r.kw("first")
		} else {
			r.kw("last")
		}
	}
}

func (r *reprinter) op(op parser.TabularOperator) {
	r.sym(parser.TokenPipe)
	if IsNilNode(op) {
		r.missing("operator")
		return
	}
	switch op := op.(type) {
	case *parser.CountOperator:
		r.kw("count")
	case *parser.WhereOperator:
		r.kw("where", "filter")
		r.expr(op.Predicate)
	case *parser.SortOperator:
		r.kw("sort", "order")
		r.sym(parser.TokenBy)
		if len(op.Terms) == 0 {
			r.missing("sort terms")
		}
		for i, t := range op.Terms {
			if i > 0 {
				r.sym(parser.TokenComma)
			}
			r.term(t)
		}
	case *parser.TakeOperator:
		r.kw("take", "limit")
		r.expr(op.RowCount)
	case *parser.TopOperator:
		r.kw("top")
		r.expr(op.RowCount)
		r.sym(parser.TokenBy)
		r.term(op.Col)
	case *parser.ProjectOperator:
		r.kw("project")
		if len(op.Cols) == 0 {
			r.missing("project columns")
		}
		for i, c := range op.Cols {
			if i > 0 {
				r.sym(parser.TokenComma)
			}
			r.ident(c.Name, "project column name")
			if c.Assign.IsValid() || !IsNilNode(c.X) {
				r.sym(parser.TokenAssign)
				r.expr(c.X)
			}
		}
	case *parser.ExtendOperator:
		r.kw("extend")
		if len(op.Cols) == 0 {
			r.missing("extend columns")
		}
		for i, c := range op.Cols {
			if i > 0 {
				r.sym(parser.TokenComma)
			}
			if c.Name != nil || c.Assign.IsValid() {
				r.ident(c.Name, "extend column name")
				r.sym(parser.TokenAssign)
			}
			r.expr(c.X)
		}
	case *parser.SummarizeOperator:
		r.kw("summarize")
		scol := func(cs []*parser.SummarizeColumn) {
			for i, c := range cs {
				if i > 0 {
					r.sym(parser.TokenComma)
				}
				if c == nil {
					r.missing("summarize column")
					continue
				}
				if c.Name != nil || c.Assign.IsValid() {
					r.ident(c.Name, "summarize column name")
					r.sym(parser.TokenAssign)
				}
				r.expr(c.X)
			}
		}
		scol(op.Cols)
		if op.By.IsValid() || len(op.GroupBy) > 0 {
			r.out = append(r.out, RTok{Kind: parser.TokenBy, SummarizeBy: len(op.Cols) > 0})
			if len(op.GroupBy) == 0 {
				r.missing("group-by columns")
			}
			scol(op.GroupBy)
		} else if len(op.Cols) == 0 {
			r.missing("summarize columns")
		}
	case *parser.JoinOperator:
		r.kw("join")
		if op.Flavor != nil || op.Kind.IsValid() || op.KindAssign.IsValid() {
			r.kw("kind")
			r.sym(parser.TokenAssign)
			r.ident(op.Flavor, "join kind")
		}
		r.sym(parser.TokenLParen)
		r.tabular(op.Right)
		r.sym(parser.TokenRParen)
		r.kw("on")
		if len(op.Conditions) == 0 {
			r.missing("join conditions")
		}
		r.exprs(op.Conditions)
	case *parser.AsOperator:
		r.kw("as")
		r.ident(op.Name, "as name")
	case *parser.RenderOperator:
		r.kw("render")
		r.ident(op.ChartType, "chart type")
		if op.With.IsValid() || op.Lparen.IsValid() || op.Rparen.IsValid() || len(op.Props) > 0 {
			r.kw("with")
			r.sym(parser.TokenLParen)
			if len(op.Props) == 0 {
				r.missing("render properties")
			}
			for i, p := range op.Props {
				if i > 0 {
					r.sym(parser.TokenComma)
				}
				if p == nil {
					r.missing("render property")
					continue
				}
				r.ident(p.Name, "property name")
				r.sym(parser.TokenAssign)
				r.expr(p.Value)
			}
			r.sym(parser.TokenRParen)
		}
	default:
		r.missing("unknown operator type")
	}
}

func (r *reprinter) tabular(t *parser.TabularExpr) {
	if t == nil {
		r.missing("tabular expression")
		return
	}
	if tr, ok := t.Source.(*parser.TableRef); ok && tr != nil {
		r.ident(tr.Table, "table name")
	} else {
		r.missing("table reference")
	}
	for _, op := range t.Operators {
		r.op(op)
	}
}

// Reprint turns the statements returned by a successful parse back into the
// token sequence they represent; statements are joined by semicolons.
func Reprint(stmts []parser.Statement) []RTok {
	r := &reprinter{}
	for i, s := range stmts {
		if i > 0 {
			r.sym(parser.TokenSemi)
		}
		if IsNilNode(s) {
			r.missing("statement")
			continue
		}
		switch s := s.(type) {
		case *parser.TabularExpr:
			r.tabular(s)
		case *parser.LetStatement:
			r.kw("let")
			r.ident(s.Name, "let name")
			r.sym(parser.TokenAssign)
			r.expr(s.X)
		default:
			r.missing("unknown statement type")
		}
	}
	return r.out
}

package astx

import (
	"fmt"

	"github.com/runreveal/pql/parser"

	"verif/harness/gen"
)

// ToGen converts a successfully parsed program into the harness's own AST.
// It is a convenience for building fixed skeleton programs from text; no
// oracle depends on it.
func ToGen(stmts []parser.Statement) (p *gen.Program, err error) {
	defer func() {
		if r := recover(); r != nil {
			p, err = nil, fmt.Errorf("astx.ToGen: %v", r)
		}
	}()
	p = &gen.Program{}
	for _, s := range stmts {
		switch s := s.(type) {
		case *parser.TabularExpr:
			p.Stmts = append(p.Stmts, tabular(s))
		case *parser.LetStatement:
			p.Stmts = append(p.Stmts, &gen.Let{Name: ident(s.Name), X: expr(s.X)})
		default:
			panic(fmt.Sprintf("statement %T", s))
		}
	}
	return p, nil
}

func ident(id *parser.Ident) gen.Ident { return gen.Ident{Name: id.Name, Quoted: id.Quoted} }

func expr(x parser.Expr) gen.Expr {
	switch x := x.(type) {
	case *parser.QualifiedIdent:
		q := &gen.QIdent{}
		for _, p := range x.Parts {
			q.Parts = append(q.Parts, ident(p))
		}
		return q
	case *parser.BasicLit:
		if x.Kind == parser.TokenString {
			return &gen.Str{Value: x.Value}
		}
		return &gen.Num{Text: x.Value}
	case *parser.UnaryExpr:
		return &gen.Unary{Op: OpSpelling[x.Op], X: expr(x.X)}
	case *parser.BinaryExpr:
		return &gen.Binary{Op: OpSpelling[x.Op], X: expr(x.X), Y: expr(x.Y)}
	case *parser.InExpr:
		in := &gen.In{X: expr(x.X)}
		for _, v := range x.Vals {
			in.Vals = append(in.Vals, expr(v))
		}
		return in
	case *parser.ParenExpr:
		return &gen.Paren{X: expr(x.X)}
	case *parser.IndexExpr:
		return &gen.Index{X: expr(x.X), I: expr(x.Index)}
	case *parser.CallExpr:
		c := &gen.Call{Func: x.Func.Name}
		for _, a := range x.Args {
			c.Args = append(c.Args, expr(a))
		}
		return c
	}
	panic(fmt.Sprintf("expression %T", x))
}

func term(t *parser.SortTerm) *gen.Term {
	out := &gen.Term{X: expr(t.X)}
	if t.AscDescSpan.IsValid() {
		out.Dir = "desc"
		if t.Asc {
			out.Dir = "asc"
		}
	}
	if t.NullsSpan.IsValid() {
		out.Nulls = "last"
		if t.NullsFirst {
			out.Nulls = "first"
		}
	}
	return out
}

func col(name *parser.Ident, x parser.Expr) *gen.Col {
	c := &gen.Col{}
	if name != nil {
		id := ident(name)
		c.Name = &id
	}
	if !IsNilNode(x) {
		c.X = expr(x)
	}
	return c
}

func tabular(t *parser.TabularExpr) *gen.Tabular {
	out := &gen.Tabular{Table: ident(t.Source.(*parser.TableRef).Table)}
	for _, op := range t.Operators {
		switch op := op.(type) {
		case *parser.CountOperator:
			out.Ops = append(out.Ops, &gen.Count{})
		case *parser.WhereOperator:
			out.Ops = append(out.Ops, &gen.Where{Pred: expr(op.Predicate)})
		case *parser.SortOperator:
			s := &gen.Sort{}
			for _, tm := range op.Terms {
				s.Terms = append(s.Terms, term(tm))
			}
			out.Ops = append(out.Ops, s)
		case *parser.TakeOperator:
			out.Ops = append(out.Ops, &gen.Take{N: expr(op.RowCount)})
		case *parser.TopOperator:
			out.Ops = append(out.Ops, &gen.Top{N: expr(op.RowCount), Term: term(op.Col)})
		case *parser.ProjectOperator:
			p := &gen.Project{}
			for _, c := range op.Cols {
				p.Cols = append(p.Cols, col(c.Name, c.X))
			}
			out.Ops = append(out.Ops, p)
		case *parser.ExtendOperator:
			e := &gen.Extend{}
			for _, c := range op.Cols {
				e.Cols = append(e.Cols, col(c.Name, c.X))
			}
			out.Ops = append(out.Ops, e)
		case *parser.SummarizeOperator:
			s := &gen.Summarize{}
			for _, c := range op.Cols {
				s.Cols = append(s.Cols, col(c.Name, c.X))
			}
			for _, c := range op.GroupBy {
				s.By = append(s.By, col(c.Name, c.X))
			}
			out.Ops = append(out.Ops, s)
		case *parser.JoinOperator:
			j := &gen.Join{Right: tabular(op.Right)}
			if op.Flavor != nil {
				j.Kind = op.Flavor.Name
			}
			for _, c := range op.Conditions {
				j.Conds = append(j.Conds, expr(c))
			}
			out.Ops = append(out.Ops, j)
		case *parser.AsOperator:
			out.Ops = append(out.Ops, &gen.As{Name: ident(op.Name)})
		case *parser.RenderOperator:
			r := &gen.Render{Chart: ident(op.ChartType)}
			for _, p := range op.Props {
				r.Props = append(r.Props, &gen.Prop{Name: ident(p.Name), Value: expr(p.Value)})
			}
			out.Ops = append(out.Ops, r)
		default:
			panic(fmt.Sprintf("operator %T", op))
		}
	}
	return out
}

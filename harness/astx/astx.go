// Package astx holds reflective tools over the exported AST of
// github.com/runreveal/pql/parser. Everything here goes through exported
// struct fields, so a node type that gains a field is picked up without a
// change here, and the hand-written Span()/Walk code of the parser is compared
// with something that cannot forget a field.
package astx

import (
	"fmt"
	"reflect"

	"github.com/runreveal/pql/parser"
)

var (
	nodeType = reflect.TypeOf((*parser.Node)(nil)).Elem()
	spanType = reflect.TypeOf(parser.Span{})
)

// Child is a node reachable from a parent through an exported field.
type Child struct {
	Node  parser.Node
	Field string // field name, with [i] for slice elements
	Index int    // position among all children of the parent, in field order
}

// IsNilNode reports whether n is a nil interface or a typed nil pointer.
func IsNilNode(n parser.Node) bool {
	if n == nil {
		return true
	}
	v := reflect.ValueOf(n)
	return v.Kind() == reflect.Ptr && v.IsNil()
}

// Children returns the direct child nodes of n: non-nil pointers that
// implement parser.Node, found through exported struct fields, interface
// fields and slices, in field declaration order.
func Children(n parser.Node) []Child {
	if IsNilNode(n) {
		return nil
	}
	v := reflect.ValueOf(n)
	if v.Kind() == reflect.Ptr {
		v = v.Elem()
	}
	if v.Kind() != reflect.Struct {
		return nil
	}
	var out []Child
	t := v.Type()
	for i := 0; i < v.NumField(); i++ {
		if !t.Field(i).IsExported() {
			continue
		}
		collect(v.Field(i), t.Field(i).Name, &out)
	}
	for i := range out {
		out[i].Index = i
	}
	return out
}

func collect(f reflect.Value, name string, out *[]Child) {
	switch f.Kind() {
	case reflect.Interface:
		if f.IsNil() {
			return
		}
		collect(f.Elem(), name, out)
	case reflect.Ptr:
		if f.IsNil() {
			return
		}
		if f.Type().Implements(nodeType) {
			*out = append(*out, Child{Node: f.Interface().(parser.Node), Field: name})
		}
	case reflect.Slice:
		for i := 0; i < f.Len(); i++ {
			collect(f.Index(i), fmt.Sprintf("%s[%d]", name, i), out)
		}
	}
}

// NilChildren lists the typed nil nodes that sit in pointer fields (and
// slice elements) of the nodes below root: the places where an optional part
// is absent or a failed parse left a hole.
func NilChildren(root parser.Node) []Child {
	var out []Child
	for _, in := range All(root) {
		v := reflect.ValueOf(in.Node)
		if v.Kind() == reflect.Ptr {
			v = v.Elem()
		}
		if v.Kind() != reflect.Struct {
			continue
		}
		t := v.Type()
		for i := 0; i < v.NumField(); i++ {
			if t.Field(i).IsExported() {
				collectNil(v.Field(i), fmt.Sprintf("%T.%s", in.Node, t.Field(i).Name), &out)
			}
		}
	}
	return out
}

func collectNil(f reflect.Value, name string, out *[]Child) {
	switch f.Kind() {
	case reflect.Ptr:
		if f.IsNil() && f.Type().Implements(nodeType) {
			*out = append(*out, Child{Node: f.Interface().(parser.Node), Field: name})
		}
	case reflect.Slice:
		for i := 0; i < f.Len(); i++ {
			collectNil(f.Index(i), fmt.Sprintf("%s[%d]", name, i), out)
		}
	}
}

// NamedSpan is a Span-typed field of a node.
type NamedSpan struct {
	Field string
	Span  parser.Span
}

// Spans returns the Span-typed fields of n itself (not of its children), in
// declaration order.
func Spans(n parser.Node) []NamedSpan {
	if IsNilNode(n) {
		return nil
	}
	v := reflect.ValueOf(n)
	if v.Kind() == reflect.Ptr {
		v = v.Elem()
	}
	if v.Kind() != reflect.Struct {
		return nil
	}
	var out []NamedSpan
	t := v.Type()
	for i := 0; i < v.NumField(); i++ {
		if t.Field(i).IsExported() && t.Field(i).Type == spanType {
			out = append(out, NamedSpan{Field: t.Field(i).Name, Span: v.Field(i).Interface().(parser.Span)})
		}
	}
	return out
}

// Info describes one node of a tree.
type Info struct {
	Node   parser.Node
	Parent parser.Node // nil for the root
	Field  string      // field of Parent that holds Node
	Depth  int
}

// All returns every node under root in pre-order (root first).
func All(root parser.Node) []Info {
	// iterative (pre-order): trees may be millions of nodes deep
	var out []Info
	if IsNilNode(root) {
		return out
	}
	stack := []Info{{Node: root}}
	for len(stack) > 0 {
		in := stack[len(stack)-1]
		stack = stack[:len(stack)-1]
		out = append(out, in)
		cs := Children(in.Node)
		for i := len(cs) - 1; i >= 0; i-- {
			stack = append(stack, Info{Node: cs[i].Node, Parent: in.Node, Field: cs[i].Field, Depth: in.Depth + 1})
		}
	}
	return out
}

// UnionBelow is the reflective union of every valid span recorded in n and in
// all nodes below it: what n.Span() has to return.
func UnionBelow(n parser.Node) parser.Span {
	u := parser.Span{Start: -1, End: -1}
	add := func(s parser.Span) {
		if !s.IsValid() {
			return
		}
		if !u.IsValid() {
			u = s
			return
		}
		if s.Start < u.Start {
			u.Start = s.Start
		}
		if s.End > u.End {
			u.End = s.End
		}
	}
	for _, in := range All(n) {
		for _, s := range Spans(in.Node) {
			add(s.Span)
		}
	}
	return u
}

// EqualShifted compares two trees (or any two values built from parser types)
// structurally; every valid Span in a, shifted by `shift`, must equal the
// corresponding Span in b, invalid spans must be invalid on both sides. It
// returns "" or the path of the first difference.
func EqualShifted(a, b any, shift int) string {
	return eq(reflect.ValueOf(a), reflect.ValueOf(b), shift, "")
}

func eq(a, b reflect.Value, shift int, path string) string {
	if a.IsValid() != b.IsValid() {
		return path + ": one side missing"
	}
	if !a.IsValid() {
		return ""
	}
	if a.Type() != b.Type() {
		return fmt.Sprintf("%s: type %v vs %v", path, a.Type(), b.Type())
	}
	if a.Type() == spanType {
		sa, sb := a.Interface().(parser.Span), b.Interface().(parser.Span)
		if !sa.IsValid() || !sb.IsValid() {
			if sa.IsValid() != sb.IsValid() {
				return fmt.Sprintf("%s: span %v vs %v", path, sa, sb)
			}
			return ""
		}
		if sa.Start+shift != sb.Start || sa.End+shift != sb.End {
			return fmt.Sprintf("%s: span %v (+%d) vs %v", path, sa, shift, sb)
		}
		return ""
	}
	switch a.Kind() {
	case reflect.Interface, reflect.Ptr:
		if a.IsNil() || b.IsNil() {
			if a.IsNil() != b.IsNil() {
				return path + ": nil vs non-nil"
			}
			return ""
		}
		return eq(a.Elem(), b.Elem(), shift, path)
	case reflect.Struct:
		t := a.Type()
		for i := 0; i < a.NumField(); i++ {
			if !t.Field(i).IsExported() {
				continue
			}
			if m := eq(a.Field(i), b.Field(i), shift, path+"."+t.Field(i).Name); m != "" {
				return m
			}
		}
		return ""
	case reflect.Slice:
		if a.Len() != b.Len() {
			return fmt.Sprintf("%s: length %d vs %d", path, a.Len(), b.Len())
		}
		for i := 0; i < a.Len(); i++ {
			if m := eq(a.Index(i), b.Index(i), shift, fmt.Sprintf("%s[%d]", path, i)); m != "" {
				return m
			}
		}
		return ""
	default:
		if !reflect.DeepEqual(a.Interface(), b.Interface()) {
			return fmt.Sprintf("%s: %v vs %v", path, a.Interface(), b.Interface())
		}
		return ""
	}
}

// AllSpanValues returns every Span stored anywhere in v (any depth, through
// pointers, interfaces, slices and structs), with its path. Used for the
// failed-parse half of C10, where the tree may be partial.
func AllSpanValues(v any) []NamedSpan {
	var out []NamedSpan
	seen := map[uintptr]bool{}
	var rec func(x reflect.Value, path string)
	rec = func(x reflect.Value, path string) {
		if !x.IsValid() {
			return
		}
		if x.Type() == spanType {
			out = append(out, NamedSpan{Field: path, Span: x.Interface().(parser.Span)})
			return
		}
		switch x.Kind() {
		case reflect.Interface:
			if !x.IsNil() {
				rec(x.Elem(), path)
			}
		case reflect.Ptr:
			if !x.IsNil() {
				if seen[x.Pointer()] {
					return
				}
				seen[x.Pointer()] = true
				rec(x.Elem(), path)
			}
		case reflect.Struct:
			t := x.Type()
			for i := 0; i < x.NumField(); i++ {
				if t.Field(i).IsExported() {
					rec(x.Field(i), path+"."+t.Field(i).Name)
				}
			}
		case reflect.Slice:
			for i := 0; i < x.Len(); i++ {
				rec(x.Index(i), fmt.Sprintf("%s[%d]", path, i))
			}
		}
	}
	rec(reflect.ValueOf(v), "")
	return out
}

package astx

import (
	"fmt"
	"strings"

	"github.com/runreveal/pql/parser"

	"verif/harness/gen"
)

// OpSpelling maps binary/unary operator token kinds to their PQL spelling.
var OpSpelling = map[parser.TokenKind]string{
	parser.TokenAnd: "and", parser.TokenOr: "or", parser.TokenPlus: "+", parser.TokenMinus: "-", parser.TokenStar: "*",
	parser.TokenSlash: "/", parser.TokenMod: "%", parser.TokenEq: "==", parser.TokenNE: "!=", parser.TokenLT: "<",
	parser.TokenLE: "<=", parser.TokenGT: ">", parser.TokenGE: ">=", parser.TokenCaseInsensitiveEq: "=~",
	parser.TokenCaseInsensitiveNE: "!~",
}

// Canon renders a parser tree in exactly the format of gen.Canon, reading only
// exported fields: positions are ignored except for whether an optional part
// was stated (its span is valid), and the sort-term booleans are the parser's
// own, so that a flipped default shows.
func Canon(n any) string {
	var sb strings.Builder
	canon(&sb, n)
	return sb.String()
}

func canonIdent(sb *strings.Builder, id *parser.Ident) {
	if id == nil {
		sb.WriteString("nil-ident")
		return
	}
	if id.Quoted {
		fmt.Fprintf(sb, "`%q", id.Name)
	} else {
		fmt.Fprintf(sb, "%q", id.Name)
	}
}

func canonCol(sb *strings.Builder, name *parser.Ident, x parser.Expr) {
	sb.WriteString("(col ")
	if name != nil {
		canonIdent(sb, name)
	} else {
		sb.WriteString("_")
	}
	sb.WriteString(" ")
	if !IsNilNode(x) {
		canon(sb, x)
	} else {
		sb.WriteString("_")
	}
	sb.WriteString(")")
}

func canonTerm(sb *strings.Builder, t *parser.SortTerm) {
	if t == nil {
		sb.WriteString("nil-term")
		return
	}
	sb.WriteString("(term ")
	canon(sb, t.X)
	fmt.Fprintf(sb, " asc=%v nullsfirst=%v dir-stated=%v nulls-stated=%v)", t.Asc, t.NullsFirst, t.AscDescSpan.IsValid(), t.NullsSpan.IsValid())
}

func canon(sb *strings.Builder, n any) {
	if nn, ok := n.(parser.Node); ok && IsNilNode(nn) {
		sb.WriteString("nil")
		return
	}
	switch n := n.(type) {
	case nil:
		sb.WriteString("nil")
	case []parser.Statement:
		sb.WriteString("(program")
		for _, s := range n {
			sb.WriteString(" ")
			canon(sb, s)
		}
		sb.WriteString(")")
	case *parser.QualifiedIdent:
		sb.WriteString("(id")
		for _, p := range n.Parts {
			sb.WriteString(" ")
			canonIdent(sb, p)
		}
		sb.WriteString(")")
	case *parser.BasicLit:
		switch n.Kind {
		case parser.TokenNumber:
			v, _ := gen.NumValue(n.Value)
			k := "int"
			if !n.IsInteger() {
				k = "float"
			}
			if v == nil {
				fmt.Fprintf(sb, "(num ?%q)", n.Value)
			} else {
				fmt.Fprintf(sb, "(num %s %s)", v.RatString(), k)
			}
		case parser.TokenString:
			fmt.Fprintf(sb, "(str %q)", n.Value)
		default:
			fmt.Fprintf(sb, "(lit-of-kind %v)", n.Kind)
		}
	case *parser.UnaryExpr:
		fmt.Fprintf(sb, "(un %s ", spelling(n.Op))
		canon(sb, n.X)
		sb.WriteString(")")
	case *parser.BinaryExpr:
		fmt.Fprintf(sb, "(bin %s ", spelling(n.Op))
		canon(sb, n.X)
		sb.WriteString(" ")
		canon(sb, n.Y)
		sb.WriteString(")")
	case *parser.InExpr:
		sb.WriteString("(in ")
		canon(sb, n.X)
		for _, v := range n.Vals {
			sb.WriteString(" ")
			canon(sb, v)
		}
		sb.WriteString(")")
	case *parser.ParenExpr:
		sb.WriteString("(paren ")
		canon(sb, n.X)
		sb.WriteString(")")
	case *parser.IndexExpr:
		sb.WriteString("(index ")
		canon(sb, n.X)
		sb.WriteString(" ")
		canon(sb, n.Index)
		sb.WriteString(")")
	case *parser.CallExpr:
		name := "<nil>"
		if n.Func != nil {
			name = n.Func.Name
			if n.Func.Quoted {
				name = "`" + name
			}
		}
		fmt.Fprintf(sb, "(call %q", name)
		for _, a := range n.Args {
			sb.WriteString(" ")
			canon(sb, a)
		}
		sb.WriteString(")")
	case *parser.WhereOperator:
		sb.WriteString("(where ")
		canon(sb, n.Predicate)
		sb.WriteString(")")
	case *parser.ProjectOperator:
		sb.WriteString("(project [")
		for i, c := range n.Cols {
			if i > 0 {
				sb.WriteString(" ")
			}
			canonCol(sb, c.Name, c.X)
		}
		sb.WriteString("])")
	case *parser.ExtendOperator:
		sb.WriteString("(extend [")
		for i, c := range n.Cols {
			if i > 0 {
				sb.WriteString(" ")
			}
			canonCol(sb, c.Name, c.X)
		}
		sb.WriteString("])")
	case *parser.SummarizeOperator:
		sb.WriteString("(summarize [")
		for i, c := range n.Cols {
			if i > 0 {
				sb.WriteString(" ")
			}
			canonCol(sb, c.Name, c.X)
		}
		sb.WriteString("] by [")
		for i, c := range n.GroupBy {
			if i > 0 {
				sb.WriteString(" ")
			}
			canonCol(sb, c.Name, c.X)
		}
		sb.WriteString("])")
	case *parser.SortOperator:
		sb.WriteString("(sort")
		for _, t := range n.Terms {
			sb.WriteString(" ")
			canonTerm(sb, t)
		}
		sb.WriteString(")")
	case *parser.TakeOperator:
		sb.WriteString("(take ")
		canon(sb, n.RowCount)
		sb.WriteString(")")
	case *parser.TopOperator:
		sb.WriteString("(top ")
		canon(sb, n.RowCount)
		sb.WriteString(" ")
		canonTerm(sb, n.Col)
		sb.WriteString(")")
	case *parser.CountOperator:
		sb.WriteString("(count)")
	case *parser.AsOperator:
		sb.WriteString("(as ")
		canonIdent(sb, n.Name)
		sb.WriteString(")")
	case *parser.RenderOperator:
		sb.WriteString("(render ")
		canonIdent(sb, n.ChartType)
		for _, p := range n.Props {
			sb.WriteString(" (prop ")
			canonIdent(sb, p.Name)
			sb.WriteString(" ")
			canon(sb, p.Value)
			sb.WriteString(")")
		}
		sb.WriteString(")")
	case *parser.JoinOperator:
		kind := ""
		if n.Flavor != nil {
			kind = n.Flavor.Name
		}
		fmt.Fprintf(sb, "(join kind=%q ", kind)
		canon(sb, n.Right)
		for _, c := range n.Conditions {
			sb.WriteString(" ")
			canon(sb, c)
		}
		sb.WriteString(")")
	case *parser.TabularExpr:
		sb.WriteString("(tabular ")
		if tr, ok := n.Source.(*parser.TableRef); ok && tr != nil {
			canonIdent(sb, tr.Table)
		} else {
			fmt.Fprintf(sb, "(source %T)", n.Source)
		}
		for _, op := range n.Operators {
			sb.WriteString(" ")
			canon(sb, op)
		}
		sb.WriteString(")")
	case *parser.LetStatement:
		sb.WriteString("(let ")
		canonIdent(sb, n.Name)
		sb.WriteString(" ")
		canon(sb, n.X)
		sb.WriteString(")")
	default:
		fmt.Fprintf(sb, "(?%T)", n)
	}
}

func spelling(k parser.TokenKind) string {
	if s, ok := OpSpelling[k]; ok {
		return s
	}
	return fmt.Sprintf("?%v", k)
}

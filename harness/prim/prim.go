// Package prim is the value domain shared by the harness's SQL evaluator and
// its reference PQL interpreter: NULL, integers, strings, booleans, opaque
// values (injective textual encodings of things neither side interprets:
// unknown functions, indexing, ill-typed mixes, non-integer numbers) and a
// poison value for results the properties are silent about.
//
// Because both sides compute with these same total functions, a difference
// between them can only come from *which* operations are applied to *which*
// operands in *which* order, never from the arithmetic itself.
package prim

import (
	"fmt"
	"math/big"
	"strings"
)

// Value is nil (NULL), int64, string, bool, Opaque or Poison.
type Value interface{}

// Opaque is an uninterpreted value, identified by its text.
type Opaque string

// Poison marks a don't-care result; it propagates through every operation.
type Poison struct{}

// IsPoison reports whether v is the poison value.
func IsPoison(v Value) bool { _, ok := v.(Poison); return ok }

func anyPoison(vs ...Value) bool {
	for _, v := range vs {
		if IsPoison(v) {
			return true
		}
	}
	return false
}

// Show renders a value unambiguously.
func Show(v Value) string {
	switch v := v.(type) {
	case nil:
		return "NULL"
	case string:
		return fmt.Sprintf("%q", v)
	case Opaque:
		return "<" + string(v) + ">"
	case Poison:
		return "<poison>"
	case bool:
		if v {
			return "true"
		}
		return "false"
	default:
		return fmt.Sprint(v)
	}
}

// norm maps booleans to 0/1 (SQL's view of them).
func norm(v Value) Value {
	if b, ok := v.(bool); ok {
		if b {
			return int64(1)
		}
		return int64(0)
	}
	return v
}

// Key renders a row so that equal rows (booleans equal to 0/1) have equal keys.
func Key(vs []Value) string {
	var sb strings.Builder
	for _, v := range vs {
		sb.WriteString(Show(norm(v)))
		sb.WriteByte(0)
	}
	return sb.String()
}

// NumLit is the value of a numeric literal given its exact value: an int64
// when it is an integer that fits, otherwise an opaque number identified by
// its exact rational value (so 1.50 and 1.5, or 0x1F and 31, are equal).
func NumLit(r *big.Rat) Value {
	if r == nil {
		return Opaque("num:?")
	}
	if r.IsInt() && r.Num().IsInt64() {
		return r.Num().Int64()
	}
	return Opaque("num:" + r.RatString())
}

// IsHugeCount: a non-negative integer literal beyond int64 (a row count that
// restricts nothing).
func IsHugeCount(v Value) bool {
	o, ok := v.(Opaque)
	if !ok || !strings.HasPrefix(string(o), "num:") || len(o) < 5 {
		return false
	}
	for _, c := range string(o)[4:] {
		if c < '0' || c > '9' {
			return false
		}
	}
	return true
}

// Truth is SQL truthiness: known=false for NULL.
func Truth(v Value) (val, known bool) {
	switch v := v.(type) {
	case nil:
		return false, false
	case bool:
		return v, true
	case int64:
		return v != 0, true
	case string:
		return v != "", true
	case Opaque:
		return true, true
	}
	return false, false
}

// IsTrue: known and true (what WHERE / ON / CASE WHEN keep).
func IsTrue(v Value) bool { t, k := Truth(v); return k && t }

func rank(v Value) int {
	switch v.(type) {
	case int64:
		return 0
	case string:
		return 1
	default:
		return 2
	}
}

// Cmp orders values totally: ints < strings < opaque; ok=false if either is NULL.
func Cmp(a, b Value) (int, bool) {
	if a == nil || b == nil {
		return 0, false
	}
	a, b = norm(a), norm(b)
	ra, rb := rank(a), rank(b)
	if ra != rb {
		if ra < rb {
			return -1, true
		}
		return 1, true
	}
	switch x := a.(type) {
	case int64:
		y := b.(int64)
		switch {
		case x < y:
			return -1, true
		case x > y:
			return 1, true
		}
		return 0, true
	case string:
		return strings.Compare(x, b.(string)), true
	case Opaque:
		return strings.Compare(string(x), string(b.(Opaque))), true
	}
	return 0, true
}

func text(v Value) string {
	switch v := norm(v).(type) {
	case string:
		return v
	case nil:
		return "NULL"
	case Opaque:
		return "<" + string(v) + ">"
	default:
		return fmt.Sprint(v)
	}
}

// BinOp applies a SQL binary operator: AND OR = <> < <= > >= || + - * / %.
func BinOp(op string, a, b Value) Value {
	if anyPoison(a, b) {
		return Poison{}
	}
	switch op {
	case "AND":
		ta, ka := Truth(a)
		tb, kb := Truth(b)
		if ka && !ta || kb && !tb {
			return false
		}
		if ka && kb {
			return true
		}
		return nil
	case "OR":
		ta, ka := Truth(a)
		tb, kb := Truth(b)
		if ka && ta || kb && tb {
			return true
		}
		if ka && kb {
			return false
		}
		return nil
	case "=", "<>", "<", "<=", ">", ">=":
		c, ok := Cmp(a, b)
		if !ok {
			return nil
		}
		switch op {
		case "=":
			return c == 0
		case "<>":
			return c != 0
		case "<":
			return c < 0
		case "<=":
			return c <= 0
		case ">":
			return c > 0
		default:
			return c >= 0
		}
	case "||":
		if a == nil || b == nil {
			return nil
		}
		if sa, ok := a.(string); ok {
			if sb, ok := b.(string); ok {
				return sa + sb
			}
		}
		return Opaque("(" + text(a) + "||" + text(b) + ")")
	case "+", "-", "*", "/", "%":
		if a == nil || b == nil {
			return nil
		}
		x, okx := norm(a).(int64)
		y, oky := norm(b).(int64)
		if !okx || !oky {
			return Opaque("(" + Show(a) + op + Show(b) + ")")
		}
		switch op {
		case "+":
			return x + y
		case "-":
			return x - y
		case "*":
			return x * y
		case "/":
			if y == 0 {
				return nil
			}
			return x / y
		default:
			if y == 0 {
				return nil
			}
			return x % y
		}
	}
	return Opaque("(" + Show(a) + " " + op + " " + Show(b) + ")")
}

// Not is SQL NOT.
func Not(a Value) Value {
	if IsPoison(a) {
		return a
	}
	t, k := Truth(a)
	if !k {
		return nil
	}
	return !t
}

// Neg is unary minus.
func Neg(a Value) Value {
	if IsPoison(a) {
		return a
	}
	if a == nil {
		return nil
	}
	if x, ok := norm(a).(int64); ok {
		return -x
	}
	return Opaque("-(" + Show(a) + ")")
}

// Pos is unary plus.
func Pos(a Value) Value {
	if IsPoison(a) || a == nil {
		return a
	}
	if _, ok := norm(a).(int64); ok {
		return norm(a)
	}
	return Opaque("+(" + Show(a) + ")")
}

// Lower / Upper are the case functions; NULL stays NULL.
func Lower(a Value) Value {
	if IsPoison(a) || a == nil {
		return a
	}
	if s, ok := a.(string); ok {
		return strings.ToLower(s)
	}
	return Opaque("lower(" + Show(a) + ")")
}

func Upper(a Value) Value {
	if IsPoison(a) || a == nil {
		return a
	}
	if s, ok := a.(string); ok {
		return strings.ToUpper(s)
	}
	return Opaque("upper(" + Show(a) + ")")
}

// InOp is x IN (list) with SQL's NULL semantics.
func InOp(x Value, list []Value) Value {
	if IsPoison(x) || anyPoison(list...) {
		return Poison{}
	}
	sawNull := x == nil
	for _, v := range list {
		c, ok := Cmp(x, v)
		if !ok {
			sawNull = true
			continue
		}
		if c == 0 {
			return true
		}
	}
	if sawNull {
		return nil
	}
	return false
}

// Coalesce returns the first non-NULL value.
func Coalesce(vs ...Value) Value {
	for _, v := range vs {
		if IsPoison(v) {
			return v
		}
		if v != nil {
			return v
		}
	}
	return nil
}

// IsNull is x IS NULL.
func IsNull(a Value) Value {
	if IsPoison(a) {
		return a
	}
	return a == nil
}

// Index is x[i]: uninterpreted.
func Index(x, i Value) Value {
	if anyPoison(x, i) {
		return Poison{}
	}
	return Opaque(Show(x) + "[" + Show(i) + "]")
}

// Call is an uninterpreted function applied to values: name and every
// argument, in order, identify the result.
func Call(name string, args []Value) Value {
	if anyPoison(args...) {
		return Poison{}
	}
	var sb strings.Builder
	sb.WriteString(name)
	sb.WriteString("(")
	for i, a := range args {
		if i > 0 {
			sb.WriteString(",")
		}
		sb.WriteString(Show(a))
	}
	sb.WriteString(")")
	return Opaque(sb.String())
}

// If is CASE WHEN c THEN a ELSE b END with c NULL counting as false.
func If(c, a, b Value) Value {
	if IsPoison(c) {
		return c
	}
	if IsTrue(c) {
		return a
	}
	return b
}

// Equal compares two result values (booleans equal 0/1).
func Equal(a, b Value) bool {
	return Show(norm(a)) == Show(norm(b))
}

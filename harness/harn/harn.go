// Package harn is the test-side half of the verification driver protocol:
// environment handed down by cmd/vdriver, statistics that end up in the
// evidence file, and replay files for violations.
//
// Protocol (all through the environment, so rapid's flags stay untouched):
//
//	VERIF_OUT      directory this shard writes stats.json / violation.json to
//	VERIF_TIER     quick | thorough
//	VERIF_SHARD    index of this shard (0-based)
//	VERIF_NSHARDS  number of shards of this stage
//	VERIF_SEED     the user-visible seed (already remapped 0 -> 1)
//	VERIF_REPLAY   path of a replay file (only for TestReplay)
package harn

import (
	"encoding/binary"
	"encoding/json"
	"fmt"
	"hash/fnv"
	"os"
	"path/filepath"
	"sort"
	"strconv"
	"sync"
)

// Env is the driver-provided configuration of one shard.
type Env struct {
	Out     string
	Tier    string
	Shard   int
	NShards int
	Seed    int64
}

func atoi(s string, def int) int {
	if s == "" {
		return def
	}
	n, err := strconv.Atoi(s)
	if err != nil {
		return def
	}
	return n
}

// GetEnv reads the protocol variables (defaults make `go test` usable by hand).
func GetEnv() Env {
	e := Env{
		Out:     os.Getenv("VERIF_OUT"),
		Tier:    os.Getenv("VERIF_TIER"),
		Shard:   atoi(os.Getenv("VERIF_SHARD"), 0),
		NShards: atoi(os.Getenv("VERIF_NSHARDS"), 1),
		Seed:    int64(atoi(os.Getenv("VERIF_SEED"), 1)),
	}
	if e.Tier == "" {
		e.Tier = "quick"
	}
	if e.NShards < 1 {
		e.NShards = 1
	}
	if e.Seed == 0 {
		e.Seed = 1
	}
	return e
}

// Thorough reports whether the thorough tier is running.
func (e Env) Thorough() bool { return e.Tier == "thorough" }

// Pick returns q in the quick tier and th in the thorough tier.
func (e Env) Pick(q, th int) int {
	if e.Thorough() {
		return th
	}
	return q
}

// Stats accumulates what one shard did. Safe for concurrent use.
type Stats struct {
	mu       sync.Mutex
	env      Env
	stage    string
	frozen   bool
	Evals    int64            `json:"evaluations"`
	NTExact  int64            `json:"nontrivial_exact"` // non-trivial cases known distinct by construction
	Classes  map[string]int64 `json:"classes"`
	Samples  map[string][]any `json:"samples"`
	nt       map[uint64]struct{}
	sampleH  map[string][]uint64
	maxPer   int
	Notes    []string `json:"notes,omitempty"`
	Exhaust  bool     `json:"exhaustive"`
	ExhaustN string   `json:"exhaustive_bound,omitempty"`
}

// NewStats creates the collector for a stage ("C09/exhaustive", ...).
func NewStats(env Env, stage string) *Stats {
	return &Stats{env: env, stage: stage, Classes: map[string]int64{}, Samples: map[string][]any{}, nt: map[uint64]struct{}{}, sampleH: map[string][]uint64{}, maxPer: 3}
}

// Freeze stops counting (used once a failure was seen, so that shrinking
// executions do not inflate the evidence).
func (s *Stats) Freeze() { s.mu.Lock(); s.frozen = true; s.mu.Unlock() }

// Eval counts one executed case.
func (s *Stats) Eval() {
	s.mu.Lock()
	if !s.frozen {
		s.Evals++
	}
	s.mu.Unlock()
}

// EvalN counts n executed cases.
func (s *Stats) EvalN(n int64) {
	s.mu.Lock()
	if !s.frozen {
		s.Evals += n
	}
	s.mu.Unlock()
}

// Class increments a histogram bucket.
func (s *Stats) Class(name string) { s.ClassN(name, 1) }

// ClassN adds n to a histogram bucket.
func (s *Stats) ClassN(name string, n int64) {
	s.mu.Lock()
	if !s.frozen {
		s.Classes[name] += n
	}
	s.mu.Unlock()
}

// Hash is the canonical 64-bit hash used for distinctness.
func Hash(canon string) uint64 {
	h := fnv.New64a()
	h.Write([]byte(canon))
	return h.Sum64()
}

// NonTrivial records a non-trivial case by its canonical form; duplicates collapse.
func (s *Stats) NonTrivial(canon string) {
	s.mu.Lock()
	if !s.frozen {
		s.nt[Hash(canon)] = struct{}{}
	}
	s.mu.Unlock()
}

// NonTrivialExact counts n non-trivial cases that are distinct by construction
// (exhaustive enumerations where every case is visited exactly once).
func (s *Stats) NonTrivialExact(n int64) {
	s.mu.Lock()
	if !s.frozen {
		s.NTExact += n
	}
	s.mu.Unlock()
}

// Sample keeps up to three sample cases per class.
func (s *Stats) Sample(class string, v any) {
	s.mu.Lock()
	if !s.frozen && len(s.Samples[class]) < s.maxPer {
		s.Samples[class] = append(s.Samples[class], v)
	}
	s.mu.Unlock()
}

// SampleHashed keeps the cases with the smallest canonical hashes: a uniform,
// deterministic sample of the whole run instead of its first few cases.
func (s *Stats) SampleHashed(class, canon string, v func() any) {
	h := Hash(canon)
	s.mu.Lock()
	defer s.mu.Unlock()
	if s.frozen {
		return
	}
	hs := s.sampleH[class]
	if len(hs) < s.maxPer {
		s.sampleH[class] = append(hs, h)
		s.Samples[class] = append(s.Samples[class], v())
		return
	}
	worst := 0
	for i := range hs {
		if hs[i] > hs[worst] {
			worst = i
		}
	}
	if h < hs[worst] {
		hs[worst] = h
		s.Samples[class][worst] = v()
	}
}

// WantSample reports whether Sample(class, ..) would still store something;
// lets callers avoid building expensive sample values.
func (s *Stats) WantSample(class string) bool {
	s.mu.Lock()
	defer s.mu.Unlock()
	return !s.frozen && len(s.Samples[class]) < s.maxPer
}

// Note adds a free-text remark to the evidence.
func (s *Stats) Note(format string, args ...any) {
	s.mu.Lock()
	s.Notes = append(s.Notes, fmt.Sprintf(format, args...))
	s.mu.Unlock()
}

// SetExhaustive marks the stage as a complete enumeration of the stated bound.
func (s *Stats) SetExhaustive(bound string) {
	s.mu.Lock()
	s.Exhaust = true
	s.ExhaustN = bound
	s.mu.Unlock()
}

type statsFile struct {
	Stage string `json:"stage"`
	Shard int    `json:"shard"`
	*Stats
	NTHashed int `json:"nontrivial_hashed"`
}

// Flush writes stats.json and nt.bin into the shard's output directory.
// Without VERIF_OUT it prints a short summary to stderr instead.
func (s *Stats) Flush() {
	s.mu.Lock()
	defer s.mu.Unlock()
	if s.env.Out == "" {
		keys := make([]string, 0, len(s.Classes))
		for k := range s.Classes {
			keys = append(keys, k)
		}
		sort.Strings(keys)
		fmt.Fprintf(os.Stderr, "[%s] evals=%d nontrivial=%d\n", s.stage, s.Evals, int64(len(s.nt))+s.NTExact)
		for _, k := range keys {
			fmt.Fprintf(os.Stderr, "  %-40s %d\n", k, s.Classes[k])
		}
		return
	}
	os.MkdirAll(s.env.Out, 0o755)
	base := filepath.Join(s.env.Out, sanitize(s.stage))
	sf := statsFile{Stage: s.stage, Shard: s.env.Shard, Stats: s, NTHashed: len(s.nt)}
	b, err := json.Marshal(sf)
	if err == nil {
		os.WriteFile(base+".stats.json", b, 0o644)
	}
	buf := make([]byte, 0, 8*len(s.nt))
	for h := range s.nt {
		buf = binary.LittleEndian.AppendUint64(buf, h)
	}
	os.WriteFile(base+".nt.bin", buf, 0o644)
}

func sanitize(s string) string {
	out := []byte(s)
	for i, c := range out {
		if !(c >= 'a' && c <= 'z' || c >= 'A' && c <= 'Z' || c >= '0' && c <= '9' || c == '-' || c == '_') {
			out[i] = '_'
		}
	}
	return string(out)
}

// Replay is the on-disk form of a violating case.
type Replay struct {
	Property string          `json:"property"`
	Kind     string          `json:"kind"` // which oracle understands Case
	Case     json.RawMessage `json:"case"`
	Message  string          `json:"message"`
}

// Failer is what both *testing.T and *rapid.T provide.
type Failer interface {
	Fatalf(format string, args ...any)
}

// Violation writes the failing case as the shard's replay file (overwriting
// earlier, larger ones: rapid re-runs the minimal case last) and fails the test.
func (s *Stats) Violation(t Failer, property, kind string, c any, format string, args ...any) {
	msg := fmt.Sprintf(format, args...)
	s.Freeze()
	WriteViolation(s.env, property, kind, c, msg)
	t.Fatalf("VIOLATION-CANDIDATE %s/%s: %s", property, kind, msg)
}

// WriteViolation stores a replay file without failing anything.
func WriteViolation(env Env, property, kind string, c any, msg string) {
	raw, err := json.Marshal(c)
	if err != nil {
		raw, _ = json.Marshal(fmt.Sprintf("%#v", c))
	}
	r := Replay{Property: property, Kind: kind, Case: raw, Message: msg}
	b, _ := json.MarshalIndent(r, "", " ")
	if env.Out == "" {
		fmt.Fprintf(os.Stderr, "violation (no VERIF_OUT): %s\n", b)
		return
	}
	os.MkdirAll(env.Out, 0o755)
	os.WriteFile(filepath.Join(env.Out, "violation.json"), b, 0o644)
}

// LoadReplay reads the file named by VERIF_REPLAY.
func LoadReplay() (*Replay, error) {
	p := os.Getenv("VERIF_REPLAY")
	if p == "" {
		return nil, fmt.Errorf("VERIF_REPLAY not set")
	}
	b, err := os.ReadFile(p)
	if err != nil {
		return nil, err
	}
	var r Replay
	if err := json.Unmarshal(b, &r); err != nil {
		return nil, err
	}
	return &r, nil
}

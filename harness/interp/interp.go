// Package interp is the reference interpreter of PQL over the harness's own
// AST (package gen): scalar expressions with PQL's documented meaning and
// pipelines applied strictly left to right on ordered lists of rows. It is
// written from the property statements C01, C02, C03 and C06 and shares only
// the value primitives (package prim) with the SQL evaluator.
package interp

import (
	"fmt"
	"strings"

	"verif/harness/gen"
	"verif/harness/prim"
)

// Rel is an ordered relation.
type Rel struct {
	Cols []string
	Rows [][]prim.Value
}

// DB maps table names to relations.
type DB map[string]*Rel

// Scope holds the values of let bindings and parameters.
type Scope map[string]prim.Value

// Env is what an expression is evaluated in.
type Env struct {
	Cols  []string
	Row   []prim.Value
	LCols []string // join condition: left / right side
	RCols []string
	LRow  []prim.Value
	RRow  []prim.Value
	Scope Scope
	// Lookup, when set, resolves multi-part / arbitrary identifiers (used by
	// the untyped expression checks): key is the parts joined by "\x00", a
	// leading "`" marks a quoted single part.
	Lookup func(key string) (prim.Value, bool)
	// Group is set while evaluating aggregate columns of a summarize.
	Group [][]prim.Value
}

// Error is an interpretation failure (unknown column, ...): a harness problem
// or an ill-typed generated program, never a verdict about pql.
type Error struct{ Msg string }

func (e *Error) Error() string { return e.Msg }

func failf(format string, args ...any) { panic(&Error{Msg: fmt.Sprintf(format, args...)}) }

// IdentKey is the lookup key of an identifier expression.
func IdentKey(q *gen.QIdent) string {
	parts := make([]string, len(q.Parts))
	for i, p := range q.Parts {
		parts[i] = p.Name
	}
	return strings.Join(parts, "\x00")
}

func find(cols []string, row []prim.Value, name string) (prim.Value, bool) {
	found := -1
	for i, c := range cols {
		if c == name {
			if found >= 0 {
				failf("ambiguous column %q", name)
			}
			found = i
		}
	}
	if found < 0 {
		return nil, false
	}
	return row[found], true
}

func (e *Env) ident(q *gen.QIdent) prim.Value {
	if len(q.Parts) == 1 && !q.Parts[0].Quoted {
		name := q.Parts[0].Name
		// scope (lets over parameters) first, then the built-in constants,
		// then columns
		if v, ok := e.Scope[name]; ok {
			return v
		}
		switch name {
		case "true":
			return true
		case "false":
			return false
		case "null":
			return nil
		}
	}
	if len(q.Parts) == 2 && !q.Parts[0].Quoted && e.LCols != nil {
		switch q.Parts[0].Name {
		case "$left":
			if v, ok := find(e.LCols, e.LRow, q.Parts[1].Name); ok {
				return v
			}
			failf("no $left.%s", q.Parts[1].Name)
		case "$right":
			if v, ok := find(e.RCols, e.RRow, q.Parts[1].Name); ok {
				return v
			}
			failf("no $right.%s", q.Parts[1].Name)
		}
	}
	if e.Lookup != nil {
		if v, ok := e.Lookup(IdentKey(q)); ok {
			return v
		}
	}
	if len(q.Parts) == 1 {
		if v, ok := find(e.Cols, e.Row, q.Parts[0].Name); ok {
			return v
		}
	}
	failf("unknown column %s", strings.ReplaceAll(IdentKey(q), "\x00", "."))
	return nil
}

var sqlOp = map[string]string{"or": "OR", "and": "AND", "<": "<", "<=": "<=", ">": ">", ">=": ">=", "+": "+", "-": "-", "*": "*", "/": "/", "%": "%"}

// Eval evaluates a scalar expression with PQL's meaning.
func Eval(x gen.Expr, e *Env) prim.Value {
	switch x := x.(type) {
	case *gen.QIdent:
		return e.ident(x)
	case *gen.Num:
		v, _ := gen.NumValue(x.Text)
		return prim.NumLit(v)
	case *gen.Str:
		return x.Value
	case *gen.Paren:
		return Eval(x.X, e)
	case *gen.Unary:
		if x.Op == "-" {
			return prim.Neg(Eval(x.X, e))
		}
		return prim.Pos(Eval(x.X, e))
	case *gen.Binary:
		l, r := Eval(x.X, e), Eval(x.Y, e)
		switch x.Op {
		case "==":
			// never NULL
			return prim.Coalesce(prim.BinOp("=", l, r), false)
		case "!=":
			return prim.Coalesce(prim.BinOp("<>", l, r), false)
		case "=~", "!~":
			if prim.IsPoison(l) || prim.IsPoison(r) || l == nil || r == nil {
				// the properties say "compares case-insensitively"; what a NULL
				// operand yields is not stated
				return prim.Poison{}
			}
			if x.Op == "=~" {
				return prim.BinOp("=", prim.Lower(l), prim.Lower(r))
			}
			return prim.BinOp("<>", prim.Lower(l), prim.Lower(r))
		}
		op, ok := sqlOp[x.Op]
		if !ok {
			failf("unknown operator %q", x.Op)
		}
		return prim.BinOp(op, l, r)
	case *gen.In:
		var list []prim.Value
		for _, y := range x.Vals {
			list = append(list, Eval(y, e))
		}
		return prim.InOp(Eval(x.X, e), list)
	case *gen.Index:
		return prim.Index(Eval(x.X, e), Eval(x.I, e))
	case *gen.Call:
		return evalCall(x, e)
	}
	failf("cannot evaluate %T", x)
	return nil
}

func evalCall(x *gen.Call, e *Env) prim.Value {
	// aggregates (only meaningful inside summarize)
	switch x.Func {
	case "count", "countif", "sum", "min", "max":
		if e.Group != nil {
			return aggregate(x, e)
		}
		if x.Func == "count" || x.Func == "countif" {
			failf("%s() outside summarize", x.Func)
		}
	}
	var a []prim.Value
	for _, y := range x.Args {
		a = append(a, Eval(y, e))
	}
	arity := func(n int) {
		if len(a) != n {
			failf("%s with %d arguments", x.Func, len(a))
		}
	}
	switch x.Func {
	case "not":
		arity(1)
		return prim.Not(a[0])
	case "isnull":
		arity(1)
		return prim.IsNull(a[0])
	case "isnotnull":
		arity(1)
		return prim.Not(prim.IsNull(a[0]))
	case "iff", "iif":
		arity(3)
		return prim.If(a[0], a[1], a[2])
	case "strcat":
		if len(a) == 0 {
			failf("strcat without arguments")
		}
		for _, v := range a {
			if v == nil {
				return prim.Poison{} // not stated what a NULL argument yields
			}
		}
		v := a[0]
		for _, y := range a[1:] {
			v = prim.BinOp("||", v, y)
		}
		return v
	case "tolower":
		arity(1)
		return prim.Lower(a[0])
	case "toupper":
		arity(1)
		return prim.Upper(a[0])
	case "now":
		arity(0)
		return prim.Call("now", nil)
	}
	return prim.Call(x.Func, a)
}

func aggregate(x *gen.Call, e *Env) prim.Value {
	var vals []prim.Value
	n := int64(0)
	for _, r := range e.Group {
		sub := &Env{Cols: e.Cols, Row: r, Scope: e.Scope, Lookup: e.Lookup}
		switch x.Func {
		case "count":
			if len(x.Args) != 0 {
				failf("count with arguments")
			}
			n++
		case "countif":
			v := Eval(x.Args[0], sub)
			if prim.IsPoison(v) {
				return v
			}
			if prim.IsTrue(v) {
				n++
			}
		default:
			v := Eval(x.Args[0], sub)
			if prim.IsPoison(v) {
				return v
			}
			if v != nil {
				vals = append(vals, v)
			}
		}
	}
	switch x.Func {
	case "count", "countif":
		return n
	case "sum":
		if len(vals) == 0 {
			return nil
		}
		var acc prim.Value = int64(0)
		for _, v := range vals {
			acc = prim.BinOp("+", acc, v)
		}
		return acc
	default:
		if len(vals) == 0 {
			return nil
		}
		best := vals[0]
		for _, v := range vals[1:] {
			c, _ := prim.Cmp(v, best)
			if x.Func == "min" && c < 0 || x.Func == "max" && c > 0 {
				best = v
			}
		}
		return best
	}
}

// DontCare is raised when a pipeline's result depends on a value the
// properties are silent about (a poison value reached a filter, sort key,
// group key, join condition or row count).
type DontCare struct{ Where string }

func (d *DontCare) Error() string { return "don't-care value in " + d.Where }

func dontCare(where string) { panic(&DontCare{Where: where}) }

// Run interprets a query. named holds the results bound by `as` so far.
func Run(t *gen.Tabular, db DB, named map[string]*Rel, scope Scope) (res *Rel, err error) {
	defer func() {
		if r := recover(); r != nil {
			switch r := r.(type) {
			case *Error:
				err = r
			case *DontCare:
				err = r
			default:
				panic(r)
			}
		}
	}()
	return run(t, db, named, scope), nil
}

func run(t *gen.Tabular, db DB, named map[string]*Rel, scope Scope) *Rel {
	src, ok := named[t.Table.Name]
	if !ok {
		src, ok = db[t.Table.Name]
		if !ok {
			failf("no table %q", t.Table.Name)
		}
	}
	cur := &Rel{Cols: src.Cols, Rows: src.Rows}
	for _, op := range t.Ops {
		cur = apply(op, cur, db, named, scope)
	}
	return cur
}

// ColName is the name of the column a column term produces ("?..." when the
// name is derived from the expression text and therefore not asserted).
func ColName(c *gen.Col) string {
	if c.Name != nil {
		return c.Name.Name
	}
	if q, ok := c.X.(*gen.QIdent); ok && len(q.Parts) == 1 {
		return q.Parts[0].Name
	}
	return "?" + gen.ExprSource(c.X)
}

func sortRows(rows [][]prim.Value, cols []string, terms []*gen.Term, scope Scope) [][]prim.Value {
	type kr struct {
		k []prim.Value
		r []prim.Value
	}
	krs := make([]kr, len(rows))
	for i, r := range rows {
		e := &Env{Cols: cols, Row: r, Scope: scope}
		for _, t := range terms {
			k := Eval(t.X, e)
			if prim.IsPoison(k) {
				dontCare("sort key")
			}
			krs[i].k = append(krs[i].k, k)
		}
		krs[i].r = r
	}
	less := func(a, b int) bool {
		for ti, t := range terms {
			asc, nullsFirst := t.Resolved()
			x, y := krs[a].k[ti], krs[b].k[ti]
			if x == nil || y == nil {
				if x == nil && y == nil {
					continue
				}
				if x == nil {
					return nullsFirst
				}
				return !nullsFirst
			}
			c, _ := prim.Cmp(x, y)
			if c == 0 {
				continue
			}
			if asc {
				return c < 0
			}
			return c > 0
		}
		return false
	}
	// insertion sort: stable, and independent of package sort
	for i := 1; i < len(krs); i++ {
		for j := i; j > 0 && less(j, j-1); j-- {
			krs[j], krs[j-1] = krs[j-1], krs[j]
		}
	}
	out := make([][]prim.Value, len(rows))
	for i := range krs {
		out[i] = krs[i].r
	}
	return out
}

func rowCount(x gen.Expr, scope Scope) int {
	v := Eval(x, &Env{Scope: scope})
	if prim.IsHugeCount(v) {
		return int(^uint(0) >> 1)
	}
	n, ok := v.(int64)
	if !ok || n < 0 {
		// the properties speak of row limits; what a negative or non-integer
		// count means is not stated
		dontCare("row count (negative or not an integer)")
	}
	return int(n)
}

func apply(op gen.Op, cur *Rel, db DB, named map[string]*Rel, scope Scope) *Rel {
	switch op := op.(type) {
	case *gen.Where:
		out := &Rel{Cols: cur.Cols}
		for _, r := range cur.Rows {
			v := Eval(op.Pred, &Env{Cols: cur.Cols, Row: r, Scope: scope})
			if prim.IsPoison(v) {
				dontCare("where predicate")
			}
			if prim.IsTrue(v) {
				out.Rows = append(out.Rows, r)
			}
		}
		return out
	case *gen.Project:
		out := &Rel{}
		for _, c := range op.Cols {
			out.Cols = append(out.Cols, c.Name.Name)
		}
		for _, r := range cur.Rows {
			e := &Env{Cols: cur.Cols, Row: r, Scope: scope}
			var nr []prim.Value
			for _, c := range op.Cols {
				if c.X == nil {
					nr = append(nr, Eval(&gen.QIdent{Parts: []gen.Ident{*c.Name}}, e))
				} else {
					nr = append(nr, Eval(c.X, e))
				}
			}
			out.Rows = append(out.Rows, nr)
		}
		return out
	case *gen.Extend:
		out := &Rel{Cols: append([]string{}, cur.Cols...)}
		for _, c := range op.Cols {
			out.Cols = append(out.Cols, ColName(c))
		}
		for _, r := range cur.Rows {
			e := &Env{Cols: cur.Cols, Row: r, Scope: scope}
			nr := append([]prim.Value{}, r...)
			for _, c := range op.Cols {
				nr = append(nr, Eval(c.X, e))
			}
			out.Rows = append(out.Rows, nr)
		}
		return out
	case *gen.Summarize:
		// group keys first, then aggregates; groups in first-appearance order
		out := &Rel{}
		for _, c := range op.By {
			out.Cols = append(out.Cols, ColName(c))
		}
		for _, c := range op.Cols {
			out.Cols = append(out.Cols, ColName(c))
		}
		var order []string
		groups := map[string][][]prim.Value{}
		keys := map[string][]prim.Value{}
		if len(op.By) == 0 {
			order = []string{""}
			groups[""] = cur.Rows
		} else {
			for _, r := range cur.Rows {
				e := &Env{Cols: cur.Cols, Row: r, Scope: scope}
				var k []prim.Value
				for _, c := range op.By {
					v := Eval(c.X, e)
					if prim.IsPoison(v) {
						dontCare("group key")
					}
					k = append(k, v)
				}
				ks := prim.Key(k)
				if _, ok := groups[ks]; !ok {
					order = append(order, ks)
					keys[ks] = k
				}
				groups[ks] = append(groups[ks], r)
			}
		}
		for _, ks := range order {
			nr := append([]prim.Value{}, keys[ks]...)
			rows := groups[ks]
			if rows == nil {
				rows = [][]prim.Value{}
			}
			rep := make([]prim.Value, len(cur.Cols))
			if len(rows) > 0 {
				rep = rows[0]
			}
			for _, c := range op.Cols {
				nr = append(nr, Eval(c.X, &Env{Cols: cur.Cols, Row: rep, Scope: scope, Group: rows}))
			}
			out.Rows = append(out.Rows, nr)
		}
		return out
	case *gen.Sort:
		return &Rel{Cols: cur.Cols, Rows: sortRows(cur.Rows, cur.Cols, op.Terms, scope)}
	case *gen.Take:
		n := rowCount(op.N, scope)
		rows := cur.Rows
		if n < len(rows) {
			rows = rows[:n]
		}
		return &Rel{Cols: cur.Cols, Rows: rows}
	case *gen.Top:
		// top N by k = sort by k, then take N
		rows := sortRows(cur.Rows, cur.Cols, []*gen.Term{op.Term}, scope)
		n := rowCount(op.N, scope)
		if n < len(rows) {
			rows = rows[:n]
		}
		return &Rel{Cols: cur.Cols, Rows: rows}
	case *gen.Count:
		return &Rel{Cols: []string{"count()"}, Rows: [][]prim.Value{{int64(len(cur.Rows))}}}
	case *gen.As:
		named[op.Name.Name] = cur
		return cur
	case *gen.Render:
		out := &Rel{Cols: append([]string{}, cur.Cols...)}
		out.Cols = append(out.Cols, "render_type")
		var vals []prim.Value
		vals = append(vals, op.Chart.Name)
		for _, p := range op.Props {
			out.Cols = append(out.Cols, "render_prop_"+p.Name.Name)
			switch v := p.Value.(type) {
			case *gen.Str:
				vals = append(vals, v.Value)
			case *gen.Num:
				vals = append(vals, v.Text)
			case *gen.QIdent:
				vals = append(vals, v.Parts[0].Name)
			default:
				failf("render property value %T", p.Value)
			}
		}
		for _, r := range cur.Rows {
			out.Rows = append(out.Rows, append(append([]prim.Value{}, r...), vals...))
		}
		return out
	case *gen.Join:
		right := run(op.Right, db, named, scope)
		left := cur
		if op.Kind == "" || op.Kind == "innerunique" {
			seen := map[string]bool{}
			d := &Rel{Cols: left.Cols}
			for _, r := range left.Rows {
				if len(left.Rows) > 1 {
					for _, v := range r {
						if prim.IsPoison(v) {
							// whether two rows are duplicates would depend on a
							// value the properties are silent about
							dontCare("duplicate removal of innerunique")
						}
					}
				}
				k := prim.Key(r)
				if !seen[k] {
					seen[k] = true
					d.Rows = append(d.Rows, r)
				}
			}
			left = d
		}
		out := &Rel{Cols: append(append([]string{}, left.Cols...), right.Cols...)}
		for _, l := range left.Rows {
			matched := false
			for _, r := range right.Rows {
				row := append(append([]prim.Value{}, l...), r...)
				e := &Env{Cols: out.Cols, Row: row, LCols: left.Cols, RCols: right.Cols, LRow: l, RRow: r, Scope: scope}
				ok := true
				for _, c := range op.Conds {
					// a bare column name k means $left.k == $right.k
					if q, isID := c.(*gen.QIdent); isID && len(q.Parts) == 1 && !q.Parts[0].Quoted && !isConst(q.Parts[0].Name) {
						c = &gen.Binary{Op: "==",
							X: &gen.QIdent{Parts: []gen.Ident{{Name: "$left"}, q.Parts[0]}},
							Y: &gen.QIdent{Parts: []gen.Ident{{Name: "$right"}, q.Parts[0]}}}
					}
					v := Eval(c, e)
					if prim.IsPoison(v) {
						dontCare("join condition")
					}
					if !prim.IsTrue(v) {
						ok = false
						break
					}
				}
				if ok {
					matched = true
					out.Rows = append(out.Rows, row)
				}
			}
			if !matched && op.Kind == "leftouter" {
				out.Rows = append(out.Rows, append(append([]prim.Value{}, l...), make([]prim.Value, len(right.Cols))...))
			}
		}
		return out
	}
	failf("cannot interpret operator %T", op)
	return nil
}

func isConst(name string) bool { return name == "true" || name == "false" || name == "null" }

package main

import "time"

// Stage is one generated tier of a property: a test function of the props
// package run as Shards[tier] processes.
type Stage struct {
	Name       string
	Test       string           // test function name (non-fuzz stages)
	Shards     [2]int           // quick, thorough
	Checks     [2]int           // -rapid.checks per shard; 0 = not a rapid test
	Steps      int              // -rapid.steps (0 = default)
	SeedOffset int              // keeps stages of one property on different PRNG streams
	Timeout    [2]time.Duration // per shard
	Fuzz       string           // native fuzz target (thorough only: Shards[0] must be 0)
	FuzzTime   [2]time.Duration
}

// Prop describes how a property is checked.
type Prop struct {
	Race        bool
	NeedCLI     bool
	Stages      []Stage
	Rule        string
	Assumptions []string
}

const min = time.Minute

var props = map[string]Prop{
	"C09": {
		Stages: []Stage{
			{Name: "exhaustive", Test: "TestC09Exhaustive", Shards: [2]int{4, 16}, Timeout: [2]time.Duration{5 * min, 20 * min}},
			{Name: "sourcechars", Test: "TestC09SourceChars", Shards: [2]int{2, 8}, SeedOffset: 2, Timeout: [2]time.Duration{5 * min, 20 * min}},
			{Name: "random", Test: "TestC09Random", Shards: [2]int{2, 16}, Checks: [2]int{15000, 250000}, SeedOffset: 1, Timeout: [2]time.Duration{5 * min, 20 * min}},
		},
		Rule: "exhaustive: every string of length <= 4 (quick) / <= 5 (thorough) over a 27-symbol representative alphabet and over a complementary 26-symbol alphabet (E, X, f, remaining operators and brackets, TAB, CR, space, runes of 2-4 bytes, U+FFFD, a truncated rune, a stray 0xA0 byte), each visited once; random: rapid-generated strings up to 64 bytes built from lexeme fragments, arbitrary bytes and runes. Oracle: partition laws, differential against an independent reference tokenizer (kinds, spans, values, numbers as exact rationals), re-scan idempotence, numeric accessors. Non-trivial = the string contains a multi-character lexeme or drives the scanner through a look-ahead state (after 0, 0x, '.', exponent, backslash, '/', '=', '!', '<', '>', inside quotes) with at least one following character; distinct = distinct strings (exhaustive part distinct by construction, random part by hash).",
		Assumptions: []string{
			"the reference tokenizer (harness/reftok) is a faithful transcription of the C09 statement and the TokenKind documentation",
			"unicode.IsSpace is the definition of white space",
			"accessor results are only compared when the value is representable (no uint64/float64 overflow)",
		},
	},
	"C15": {
		Stages: []Stage{
			{Name: "exhaustive", Test: "TestC15Exhaustive", Shards: [2]int{4, 16}, Timeout: [2]time.Duration{5 * min, 30 * min}},
			{Name: "random", Test: "TestC15Random", Shards: [2]int{2, 16}, Checks: [2]int{8000, 100000}, SeedOffset: 1, Timeout: [2]time.Duration{5 * min, 20 * min}},
		},
		Rule:        "exhaustive: every string of length <= 4 (quick) / <= 5 (thorough) over the 27-symbol alphabet and over the complementary 26-symbol alphabet (the first contains ';', all three quotes, '/', '!', newline); random: rapid-generated concatenations of statement fragments, semicolons, unterminated tokens and look-ahead lexemes. Oracle: join(pieces, ';') == source; #pieces == #semicolon tokens + 1; each piece is the text between consecutive semicolon tokens; Scan(piece) has no semicolon token and equals the context tokens shifted by the piece offset; Parse(source) succeeds iff every non-empty piece parses, and then statement k equals Parse(piece k) up to the span shift. Non-trivial = at least one semicolon token and (a semicolon byte that is not a token, or a semicolon directly after a look-ahead character); distinct = distinct strings.",
		Assumptions: []string{"reflective structural comparison over the exported AST fields defines 'the same statement'"},
	},
	"C07": {
		Stages: []Stage{
			{Name: "exhaustive", Test: "TestC07Exhaustive", Shards: [2]int{4, 16}, Timeout: [2]time.Duration{5 * min, 30 * min}},
			{Name: "exprs", Test: "TestC07Exprs", Shards: [2]int{2, 16}, Checks: [2]int{3000, 80000}, SeedOffset: 1, Timeout: [2]time.Duration{5 * min, 30 * min}},
			{Name: "programs", Test: "TestC07Programs", Shards: [2]int{4, 16}, Checks: [2]int{2500, 80000}, SeedOffset: 2, Timeout: [2]time.Duration{5 * min, 30 * min}},
			{Name: "deep", Test: "TestC07Deep", Shards: [2]int{2, 8}, Checks: [2]int{150, 1500}, SeedOffset: 4, Timeout: [2]time.Duration{5 * min, 30 * min}},
			{Name: "large", Test: "TestC07Large", Shards: [2]int{2, 8}, Checks: [2]int{60, 600}, SeedOffset: 3, Timeout: [2]time.Duration{5 * min, 30 * min}},
		},
		Rule: "exhaustive: every token sequence operand (op operand){1..3} (thorough: ..4) over the 16 binary operators with every sign pattern, expected tree from a reference precedence parser written from the C07 statement; exprs: rapid-generated expression trees to depth 7/10 (calls, one index, nested and redundant parentheses, in-lists), two layouts each; programs: rapid-generated programs (all eleven operators with every optional part, lets, empty statements, nested joins, hostile names/strings), two layouts each, keyword synonyms drawn at random; large: flat programs of 50-1025 operators, terms, statements or list elements; deep: expressions nested 20-300 levels deep in runs of parentheses, calls, index brackets, in-lists and signs (the grammar has no size or depth limit). Oracle: parser.Parse succeeds and the tree (read through exported fields, positions ignored, sort-term booleans taken from the parser) equals the expected canonical tree; parser.Scan equals the printed token list. Non-trivial = >= 2 binary operators of different kinds, or a sign next to index/call, or an operator with an optional part / column list, or a layout with newline, tab or comment; distinct = canonical tree x layout class.",
		Assumptions: []string{
			"the reference expression parser (harness/gen/refparse.go) transcribes the C07 statement",
			"contextual words asc/desc/nulls/first/last are not used as bare names, `let` is not used as a table name (the property does not say they belong to the grammar there)",
			"chained indexing, calls on quoted or qualified names are not generated (C07 does not claim them)",
		},
	},
	"C08": {
		Stages: []Stage{
			{Name: "soups", Test: "TestC08Exhaustive", Shards: [2]int{6, 16}, Timeout: [2]time.Duration{5 * min, 40 * min}},
			{Name: "mutants", Test: "TestC08Mutants", Shards: [2]int{4, 16}, Checks: [2]int{6000, 100000}, SeedOffset: 1, Timeout: [2]time.Duration{5 * min, 40 * min}},
			{Name: "dictionary", Test: "TestC08Dictionary", Shards: [2]int{4, 16}, Timeout: [2]time.Duration{5 * min, 30 * min}},
			{Name: "fuzz", Fuzz: "FuzzC08Accept", Shards: [2]int{0, 1}, FuzzTime: [2]time.Duration{0, 4 * min}},
		},
		Rule:        "soups: every sequence of <= 6 tokens over an 8-symbol alphabet and <= 4 over a 15-symbol one (thorough: <= 6 over 15 symbols) spliced into eight expression/operator contexts, every sequence of <= 3 (4) tokens over 21 operator-level symbols in 13 operator contexts and every sequence of <= 7 (8) tokens over 7 bracket-level symbols, each visited once (an accepted soup counts as non-trivial); dictionary: every short word that occurs as a string literal in the parser's or compiler's source (read from the tree under test at run time) followed by every sequence of <= 4 (5) option-like tokens in 13 contexts; mutants: rapid-generated grammar programs (all operators, lets, nested joins, hostile names) printed in a random layout and corrupted by 1-3 token-level edits (delete, insert incl. error lexemes, duplicate, transpose, truncate, replace, append) or byte-level splices of hostile constants; thorough adds a coverage-guided native fuzz campaign seeded with the goldens. Oracle, whenever Parse returns nil error: Scan holds no error token, and the token sequence re-printed from the tree through exported fields equals Scan's (kind, value) sequence except for a comma directly before the ')' closing a call, a comma directly before summarize's `by`, and empty statements. Non-trivial = an accepted mutant (Parse succeeded on a corrupted program) or an input that uses an allowed absence; distinct = distinct sources.",
		Assumptions: []string{"the re-printer (harness/astx/reprint.go) prints optional parts iff their span is valid or their node is non-nil; keyword synonyms are accepted as sets"},
	},
	"C10": {
		Stages: []Stage{
			{Name: "programs", Test: "TestC10Programs", Shards: [2]int{4, 16}, Checks: [2]int{1500, 30000}, Timeout: [2]time.Duration{5 * min, 40 * min}},
			{Name: "corrupt", Test: "TestC10Corrupt", Shards: [2]int{4, 16}, Checks: [2]int{4000, 60000}, SeedOffset: 1, Timeout: [2]time.Duration{5 * min, 40 * min}},
			{Name: "soups", Test: "TestC10Soups", Shards: [2]int{4, 16}, Timeout: [2]time.Duration{5 * min, 40 * min}},
			{Name: "large", Test: "TestC10Large", Shards: [2]int{2, 8}, Checks: [2]int{40, 400}, SeedOffset: 3, Timeout: [2]time.Duration{5 * min, 30 * min}},
			{Name: "fuzz", Fuzz: "FuzzC10Positions", Shards: [2]int{0, 1}, FuzzTime: [2]time.Duration{0, 3 * min}},
		},
		Rule: "programs: rapid-generated grammar programs (all operators and optional parts, lets, nested joins, hostile names) in two random layouts each (multi-line, tabs, comments, non-ASCII); corrupt: token- and byte-level corruptions of such programs; soups: every sequence of <= 4 (thorough 5) tokens over a 15-symbol alphabet in eight contexts; thorough adds native fuzzing. Oracle, success half (every input that parses, including accepted mutants): each recorded span is non-empty, inside the source, starts and ends on Scan token boundaries and its text re-scans to exactly the lexeme it claims (identifier with that name, literal with that value, that operator, keyword, bracket; two-token spans for `sort by` and `nulls first/last`); required spans are valid; all leaf spans are pairwise disjoint and together cover every token except commas, dots and semicolons exactly once; every node's Span() equals the reflective union of all spans below it, contains its parts, and parts are ordered left to right. Failure half: every span reachable in the partial tree and every Span() result is invalid or inside [0,len]; Span() never panics; every line:column prefix of Parse's and Compile's error text is the line/column of some offset of the source (tab stops of 8). Non-trivial = success: layout with newline/tab/comment/non-ASCII and a render, top, join-kind or sort-flag operator; failure: failed parse with a partial tree (soups: any failed parse); distinct = program shape x layout class, or distinct source.",
		Assumptions: []string{
			"exported AST fields are declared in source order (used for the 'precedes its right siblings' law)",
			"a span field's meaning follows from its name and node type (table in c10_test.go); a new span field fails the check as 'no expectation' rather than passing silently",
		},
	},
	"C12": {
		Stages: []Stage{
			{Name: "random", Test: "TestC12Random", Shards: [2]int{8, 16}, Checks: [2]int{3000, 40000}, Timeout: [2]time.Duration{10 * min, 90 * min}},
			{Name: "soups", Test: "TestC12Soups", Shards: [2]int{2, 16}, SeedOffset: 1, Timeout: [2]time.Duration{10 * min, 60 * min}},
			{Name: "fuzz", Fuzz: "FuzzC12Total", Shards: [2]int{0, 1}, FuzzTime: [2]time.Duration{0, 5 * min}},
		},
		Rule: "random: rapid-generated inputs <= 4 KiB in ten classes (random bytes, token soups, grammar programs, corrupted programs, programs with one planted misuse cut off after any token, nesting templates of brackets/calls/signs/in-lists scaled to the size cap and closed completely, partly or not at all, error cascades, long valid pipelines of up to 150 operators, every built-in and every function-like word of the source dictionary with 0-5 arguments in every expression position) x optional parameter maps with arbitrary names and snippets; soups: every sequence of <= 3 (thorough 5) tokens over a 15-symbol alphabet in eight contexts; thorough adds native fuzzing over (source, parameter). Oracle: a worker subprocess runs Scan, SplitStatements, Parse, Walk over every statement of a successful parse, Compile without and with the parameter map; a recovered panic, a worker death, or 20 CPU-seconds burnt on one case (read from /proc/<pid>/stat; slowest legitimate 4 KiB input measured at 3.2 s) is a violation. Non-trivial = the input has a bracket or a join, or an error token, or compiles; distinct = distinct inputs.",
		Assumptions: []string{
			"a call that burns 20 CPU-seconds on <= 4 KiB does not terminate 'within seconds'; a slower-but-finite path just under the budget passes",
			"wall-clock overrun without CPU consumption is inconclusive (exit 2), never a violation",
		},
	},
	"C11": {
		Stages: []Stage{
			{Name: "programs", Test: "TestC11Programs", Shards: [2]int{4, 16}, Checks: [2]int{2500, 120000}, Timeout: [2]time.Duration{5 * min, 40 * min}},
			{Name: "soups", Test: "TestC11Soups", Shards: [2]int{4, 16}, SeedOffset: 1, Timeout: [2]time.Duration{5 * min, 40 * min}},
			{Name: "huge", Test: "TestC11Huge", Shards: [2]int{6, 12}, SeedOffset: 3, Timeout: [2]time.Duration{10 * min, 40 * min}},
			{Name: "large", Test: "TestC11Large", Shards: [2]int{2, 8}, Checks: [2]int{40, 300}, SeedOffset: 2, Timeout: [2]time.Duration{5 * min, 40 * min}},
		},
		Rule:        "programs: rapid-generated grammar programs covering every node type in every child position (parenthesised expressions, unnamed extend/summarize columns, project with/without expression, render with/without properties, nested and chained joins, lets), one in five corrupted by token edits and kept if it still parses; two pruning draws each; soups: every short token sequence (same alphabets/contexts as C08) that parses. Oracle: reflection over exported fields enumerates the node graph; parser.Walk under recover must not panic, never pass a nil node, visit every *Ident and every Expr node (except CallExpr.Func and JoinOperator.Flavor) exactly once by pointer identity, visit nothing twice and nothing outside the tree, visit ancestors first; with a rapid-drawn set of visits answering false the visited set is exactly the full set minus strict descendants of those nodes; the same laws for Walk started at every expression subtree (the compiler's usage). Non-trivial = tree with >= 10 nodes and at least one of {ParenExpr, unnamed extend/summarize column, render property, join, project column without expression, let}; distinct = program shape x pruning draw.",
		Assumptions: []string{"the set of nodes is what is reachable through exported fields of pointer/interface/slice type implementing parser.Node"},
	},
	"C02": {
		Stages: []Stage{
			{Name: "sequences", Test: "TestC02Sequences", Shards: [2]int{4, 16}, Checks: [2]int{4, 8}, Timeout: [2]time.Duration{10 * min, 60 * min}},
			{Name: "random", Test: "TestC02Random", Shards: [2]int{4, 16}, Checks: [2]int{5000, 300000}, SeedOffset: 1, Timeout: [2]time.Duration{10 * min, 60 * min}},
		},
		Rule: "sequences: every sequence of the ten non-join operator kinds of length <= 3 (thorough 4), each instantiated with 4 (thorough 8) rapid draws of well-typed arguments (schema threaded through the pipeline; project renames onto existing column names one time in three; later operators use the new names) and of a small database (0-6 rows, 4-value domains, NULLs, duplicate rows); random: sequences up to length 8 with repetition. Oracle: the emitted SQL, parsed by the independent SQL front end and evaluated with list semantics under both name-resolution disciplines (output alias first / source column first; readings that are not valid SQL are dropped), must return the columns (names and order) and rows of the reference interpreter that applies the operators left to right; rows are compared as sequences when a sort determines the final order (ties: accepted only if equal as multisets and ordered consistently with that sort), else as multisets. Non-trivial = a take/top adjacent to sort/where/project/summarize/extend/take/top, or a sort after a name-changing operator, or two sorts or two takes, or an operator after render/as, on a non-empty table with a tie or a NULL; distinct = operator kinds x argument shape.",
		Assumptions: []string{
			"a row limit that no sort precedes keeps the first rows in the order the evaluator produced them, in the SQL evaluator and in the reference interpreter alike (SQL leaves that choice open; an emitted statement that is correct only under another choice would be reported)",
			"a subquery's row order is preserved by an outer SELECT/WHERE and ORDER BY is stable (single-stream ClickHouse behaviour the repository's goldens rely on)",
			"extend/summarize never reuse an existing column name; unnamed computed columns are compared by position only; take counts are non-negative integers",
			"values the properties are silent about (=~ with NULL operand, strcat with NULL argument) make a case don't-care (skipped, counted)",
		},
	},
	"C03": {
		Stages: []Stage{
			{Name: "joins", Test: "TestC03Joins", Shards: [2]int{6, 16}, Checks: [2]int{3500, 150000}, Timeout: [2]time.Duration{10 * min, 90 * min}},
		},
		Rule: "rapid-generated well-typed programs: a left prefix of 0-3 operators, a join, 0-3 further operators (more joins allowed); every join kind (absent, innerunique, inner, leftouter); conditions: bare key, $left.a == $right.b in both orientations, extra equalities, non-equi comparisons, one-sided predicates, and/or combinations; right-hand pipelines of 0-3 operators with joins nested to depth 2 (thorough 3); right-hand sides that read an earlier `as` name; databases of three tables with overlapping key domains, duplicate rows, unmatched rows, NULL keys. Oracle as C02 (rows as multisets unless a later sort determines the order) against the reference join semantics of the C03 statement. Non-trivial = at least one join on a database that distinguishes the kinds (duplicate left rows, unmatched or NULL keys) and ((non-empty prefix and multi-operator right side) or nested join or >= 2 joins); distinct = program shape.",
		Assumptions: []string{
			"a row limit that no sort precedes keeps the first rows in evaluation order on both sides of the comparison (see C02)",
			"as C02; unqualified column references after a join are only generated for names that occur on one side",
			"one program in six has `let k = n` in front and still uses the bare join key `on k`: the check asserts the documented meaning of a bare name after `on` ($left.k == $right.k); all other references to column k are written in backticks there",
			"`==` between $left and $right terms is only generated as a top-level (AND-ed) condition: there pql's plain `=` and a NULL-safe equality select the same pairs",
		},
	},
	"C01": {
		Stages: []Stage{
			{Name: "exhaustive", Test: "TestC01Exhaustive", Shards: [2]int{8, 16}, Timeout: [2]time.Duration{10 * min, 30 * min}},
			{Name: "random", Test: "TestC01Random", Shards: [2]int{4, 16}, Checks: [2]int{1500, 40000}, SeedOffset: 1, Timeout: [2]time.Duration{10 * min, 60 * min}},
			{Name: "positions", Test: "TestC01Positions", Shards: [2]int{8, 16}, Timeout: [2]time.Duration{10 * min, 30 * min}},
		},
		Rule: "exhaustive: all expression trees with <= 3 operator nodes over 27 constructors (thorough: also all trees with 4 operator nodes over 12 representative constructors) (15 binary operators, in, index, both signs, seven built-ins, one pass-through function) in the where position, once with the parentheses the grammar needs and once with every operand parenthesised; positions: all trees with <= 2 operator nodes in thirteen positions (project, extend named/unnamed, summarize key, sort, top key, where, let, five let-use sites) with identifier, string, number and mixed leaves (eight leaf patterns); random: rapid-generated trees to depth 5 (thorough 8) with every literal spelling, quoted and qualified names, calls of all built-ins and pass-through names, explicit required and redundant parentheses, placed in seventeen positions (where, project, extend named/unnamed, summarize aggregate and key, sort, take, top count and key, join on, let, and five let-use sites: the bound name as an operand, under a unary minus, renamed by a second let, beside a quoted column of the same name), one in three re-checked inside two more redundant parentheses. Oracle: Compile (under a CPU watchdog) must return; the emitted SQL must parse; the clause holding the translation is read with ClickHouse's operator precedence and evaluated on 25+ row valuations (all-NULL, single-NULL, mixed ints/strings) and must equal the value of the generator's tree under PQL semantics (==/!= never NULL, =~/!~ on lower(), built-ins by their documented meaning, any other function an injective function of its name and argument values). Non-trivial = >= 2 operator nodes or an explicit parenthesis; distinct = position x canonical tree.",
		Assumptions: []string{
			"SQL is read with ClickHouse's precedence table (OR < AND < NOT < IS NULL < comparison/IN < || < + - < * / % < unary sign < [ ])",
			"values the property is silent about are don't-care and skipped: =~/!~ with a NULL operand, strcat with a NULL argument",
			"in join conditions `==` between $left and $right terms is only generated as a top-level AND-ed condition (pql deliberately emits a plain `=` there); predicate positions compare whether the row is kept",
			"pass-through function names that are SQL keywords or functions the SQL evaluator interprets are not generated",
		},
	},
	"C05": {
		Stages: []Stage{
			{Name: "programs", Test: "TestC05Programs", Shards: [2]int{4, 16}, Checks: [2]int{4000, 80000}, Timeout: [2]time.Duration{10 * min, 60 * min}},
			{Name: "soups", Test: "TestC05Soups", Shards: [2]int{4, 16}, SeedOffset: 1, Timeout: [2]time.Duration{10 * min, 60 * min}},
			{Name: "large", Test: "TestC05Large", Shards: [2]int{2, 8}, Checks: [2]int{40, 400}, SeedOffset: 2, Timeout: [2]time.Duration{5 * min, 30 * min}},
			{Name: "fuzz", Fuzz: "FuzzC05Statement", Shards: [2]int{0, 1}, FuzzTime: [2]time.Duration{0, 4 * min}},
		},
		Rule: "programs: rapid-generated rule-abiding programs of every shape (all operators, nested joins, lets before and after the query, hostile quoted names and strings, odd-but-accepted forms: negative and parenthesised limits, literals as predicates, operator keywords as column names) in random layouts, half of them corrupted by token edits and kept when they still compile; benign parameter maps; soups: every short token sequence (C08's alphabets and contexts) that compiles; thorough adds native fuzzing seeded with the goldens. Oracle on every successful compilation: the output lexes under standard and under ClickHouse quoting rules without unterminated token or comment, holds exactly one `;` and it is the last token, has balanced brackets, parses as [WITH name AS (select), ...] select; every FROM/JOIN reads a table named in the PQL source (taken from parser.Parse's TableRefs and `as` names) or a CTE defined earlier; CTE names are pairwise distinct; every CTE is used. Non-trivial = the statement has a CTE or a join, or the source is a compiled mutant/soup; distinct = distinct sources.",
		Assumptions: []string{
			"the SELECT grammar of harness/sqlx is wider than what pql emits today (optional DISTINCT, INNER/LEFT [OUTER] JOIN, aliases with or without AS, NULLS FIRST/LAST) so a harmless change of strategy is not reported",
			"sources that use __subquery names themselves, repeat an `as` name, or call a pass-through function named like an SQL keyword are excluded (counted)",
		},
	},
	"C13": {
		Stages: []Stage{
			{Name: "rules", Test: "TestC13Rules", Shards: [2]int{4, 16}, Checks: [2]int{2500, 40000}, Timeout: [2]time.Duration{10 * min, 60 * min}},
			{Name: "eitheror", Test: "TestC13EitherOr", Shards: [2]int{2, 16}, Checks: [2]int{5000, 60000}, SeedOffset: 1, Timeout: [2]time.Duration{10 * min, 60 * min}},
			{Name: "soups", Test: "TestC13Soups", Shards: [2]int{4, 16}, SeedOffset: 2, Timeout: [2]time.Duration{10 * min, 60 * min}},
			{Name: "fuzz", Fuzz: "FuzzC13EitherOr", Shards: [2]int{0, 1}, FuzzTime: [2]time.Duration{0, 3 * min}},
		},
		Rule: "rules: rapid-generated rule-abiding programs (all operators, nested joins, lets, built-ins with the right arity at every depth, $left/$right inside join conditions, known join kinds, integer/non-literal row counts) must compile; then exactly one rule violation is planted into the same program at a rapid-chosen expression slot of any depth (query, let value, join condition, right-hand pipeline) and it must be rejected: no tabular statement, a second tabular statement, a let value with an unbound / quoted / qualified identifier, each of the eleven built-ins with every wrong arity 0..4, $left / $right outside a join condition, seven unknown join kinds, a float or string literal row count; eitheror/soups/fuzz: random bytes, token soups, grammar programs, corruptions and every short token sequence must yield (non-empty SQL, nil) or (empty, error). Non-trivial = every planted case and every rule-abiding twin; distinct = plant kind x placement class x program shape.",
		Assumptions: []string{
			"render property values are not expression slots (they are not compiled as expressions); lets after the query are not planted (the property says they have no effect)",
		},
	},
	"C04": {
		Stages: []Stage{
			{Name: "fillings", Test: "TestC04Fillings", Shards: [2]int{4, 16}, Checks: [2]int{2500, 40000}, Timeout: [2]time.Duration{10 * min, 60 * min}},
			{Name: "fuzz", Fuzz: "FuzzC04Fill", Shards: [2]int{0, 1}, FuzzTime: [2]time.Duration{0, 4 * min}},
		},
		Rule: "rapid-generated program skeletons (all operators, joins, lets) whose every literal and name occurrence is a hole: string literals in every expression position (predicates, in-lists, index keys, let values, join conditions, render values), quoted names (tables, column references and their parts, aliases, `as` names, render chart/property names and identifier values), unquoted names, numeric literals (integer spellings in row-count positions); fillings from a hostile alphabet (all three quotes, backslash, - / * ; ( ) , NUL TAB LF CR space, non-ASCII, invalid UTF-8, braces) of length 0-12, injection constants, and every number spelling (leading zeros, hex, leading/trailing dot, exponent, 25 digits, 1e400); thorough adds a native fuzz target that fills eight fixed skeletons with fuzzer-chosen bytes. Oracle (metamorphic + decode): the skeleton is compiled with unique benign markers and with the hostile filling; both outputs are lexed under standard and under ClickHouse quoting rules: no unterminated token or comment, identical token-kind sequences, every token not at a marker position byte-identical; under ClickHouse rules each marker-position token decodes to exactly the PQL value of its hole (strings after escape processing, names after backtick un-doubling, numbers as equal rationals); derived names (source slices of unnamed columns, render_prop_<name>) decode to the printer's slice / the composed name. Non-trivial = at least one hole holds a quote, backslash, comment marker, semicolon, NUL, newline or non-ASCII byte; distinct = skeleton shape x hole count x hostile class set.",
		Assumptions: []string{
			"ClickHouse's documented lexical rules for '...', \"...\" and `...` (backslash escapes, doubled quotes) are the target dialect's rules",
			"parameter snippets and pass-through function names are not holes; a number used as a render property value is not asserted (it is rendered as a string)",
			"let-binding names are not holes (renaming them changes scoping, i.e. structure)",
		},
	},
	"C06": {
		Stages: []Stage{
			{Name: "signedparams", Test: "TestC06SignedParams", Shards: [2]int{2, 2}, SeedOffset: 2, Timeout: [2]time.Duration{5 * min, 10 * min}},
			{Name: "manyuses", Test: "TestC06ManyUses", Shards: [2]int{4, 8}, SeedOffset: 1, Timeout: [2]time.Duration{10 * min, 30 * min}},
			{Name: "bindings", Test: "TestC06Bindings", Shards: [2]int{6, 16}, Checks: [2]int{2500, 150000}, Timeout: [2]time.Duration{10 * min, 90 * min}},
		},
		Rule: "rapid-generated configurations: 0-3 parameters (names colliding with columns k/a1, with the constant true, with later let names; typed placeholder snippets; generated values) x 0-5 let statements (literal, signed, parenthesised-signed, compound, reference and compound-over-reference values; redefinition; shadowing of parameters; lets after the query) x a well-typed pipeline of 1-5 operators (joins included) in which one leaf in two is a binding of the right type, in every expression position (where, project, extend, summarize aggregate and key, sort, take/top counts, join conditions) and under every operator the typed grammar has (signs, all precedence levels, in-lists, iff); colliding non-uses: columns, aliases and `as` names spelled like a binding (then referenced in backticks), qualified $left./$right. names. Oracle: (1) the emitted SQL evaluated with placeholders bound to the generated values equals the reference interpreter with lexical scoping (a let value is computed once, in the scope of the lets and parameters before it; later lets shadow); (2) adding an unused let, an unused parameter and lets after the query leaves the SQL byte-identical; (3) a parameter's snippet occurs verbatim in the SQL iff the parameter reaches the query through substituted uses (directly or through a chain of lets). Non-trivial = at least one binding used in the query and at least one of: shadowing, redefinition, reference chain, signed or compound value, use in a join condition or row count, an alias or `as` name spelled like a binding; distinct = program shape.",
		Assumptions: []string{
			"as C02/C03; negative row counts are don't-care (skipped, counted)",
			"a bare join key that is also a binding is not generated (C03 and C06 disagree on its meaning)",
		},
	},
	"C14": {
		Race: true,
		Stages: []Stage{
			{Name: "histories", Test: "TestC14Histories", Shards: [2]int{8, 16}, Checks: [2]int{40, 500}, Timeout: [2]time.Duration{10 * min, 120 * min}},
		},
		Rule: "rapid-generated call histories of 5-40 calls over a pool of sources (lets that shadow a parameter of the shared map followed by calls that use that parameter, every built-in, an unknown join kind for the sorted error text, generated programs and their corruptions) mixing pql.Compile, nil / zero-value / empty-map / shared-map / private-map options and five maps that are easy to confuse with the shared one (same %v print-out, values exchanged, one entry fewer or more), parser.Parse and parser.Scan; the pool also holds pipelines of 15-260 operators (some with several operators that each fail for their own reason) and expressions nested 50-400 deep. Every successful compilation is compared with the compilation of the same program followed by white space (a text no earlier call has seen). Each history runs sequentially in the test process (model: memo from call to result; equal calls must give equal results, nil = zero = empty options, the history repeated gives the same results, the shared map is unchanged) and once in a fresh child process built with -race whose first action is to run all calls from 2-16 goroutines released by a barrier on one shared options value: every concurrent result must equal the isolated one, the shared map must be unchanged, and the race detector must stay silent (exit status / DATA RACE report). A fresh child per history makes each one a first-use trial of the lazily initialised built-in table. Non-trivial = >= 4 goroutines, or a let that shadows a shared parameter followed by a later call using it; distinct = distinct histories.",
		Assumptions: []string{
			"schedules are sampled by the Go scheduler under the race detector, not enumerated: a race that needs a particular preemption point can escape, but unsynchronised accesses are reported whatever the outcome",
		},
	},
	"C16": {
		NeedCLI: true,
		Stages: []Stage{
			{Name: "scripts", Test: "TestC16Scripts", Shards: [2]int{8, 16}, Checks: [2]int{150, 10000}, Timeout: [2]time.Duration{10 * min, 90 * min}},
		},
		Rule: "rapid-generated scripts of 0-8 statements (valid queries that use or do not use earlier lets, valid lets incl. chains and redefinitions, failing lets (unbound name, syntax, quoted identifier, arity), invalid queries (parse and compile errors), empty statements) x line layouts (statements on one line or across lines with newlines, tabs and comments between tokens, blank lines and comments with semicolons between statements, final statement with or without `;` and final newline, CRLF line ends, one class with a 66-70 KB line, alone or inside a multi-line statement, one with 3-53 KB lines, comments between a statement and its semicolon, repeated let texts, strings and quoted names holding //, ; and trailing backslashes) x transport (stdin, one file, 2-3 files cut at arbitrary byte positions, `-` among files) x sink (stdout, -o file); each script is also run with the final `;` toggled. Oracle: the built cmd/pql binary is run as a subprocess; expected standard output is the fold of the statement list with pql.Compile (a let is accepted iff it compiles with the accepted lets before it; a query contributes the library's SQL for accepted-lets + query followed by a blank line); stdout (or the -o file) must be byte-equal; exit status is non-zero iff some statement failed, stderr non-empty iff some statement failed; for the long-line class: complete correct processing, or non-zero exit with stdout a prefix of the expected output. Non-trivial = a query that uses an earlier let, or a failing statement followed by a succeeding one; distinct = statement-kind sequence x transport x sink x line-end style.",
		Assumptions: []string{
			"exit status and stderr are not asserted for scripts with empty statements between semicolons or an unterminated final let (only their effect on stdout is checked); error message text is never compared",
			"statement texts are generated so that the semicolons written between them are the only semicolon tokens (C15 covers the splitter itself)",
		},
	},
}

package main

import "time"

// Stage is one generated tier of a property: a test function of the props
// package run as Shards[tier] processes.
type Stage struct {
	Name       string
	Test       string           // test function name (non-fuzz stages)
	Shards     [2]int           // quick, thorough
	Checks     [2]int           // -rapid.checks per shard; 0 = not a rapid test
	Steps      int              // -rapid.steps (0 = default)
	SeedOffset int              // keeps stages of one property on different PRNG streams
	Timeout    [2]time.Duration // per shard
	Fuzz       string           // native fuzz target (thorough only: Shards[0] must be 0)
	FuzzTime   [2]time.Duration
}

// Prop describes how a property is checked.
type Prop struct {
	Race        bool
	NeedCLI     bool
	Stages      []Stage
	Rule        string
	Assumptions []string
}

const min = time.Minute

var props = map[string]Prop{
	"C09": {
		Stages: []Stage{
			{Name: "exhaustive", Test: "TestC09Exhaustive", Shards: [2]int{4, 16}, Timeout: [2]time.Duration{5 * min, 20 * min}},
			{Name: "random", Test: "TestC09Random", Shards: [2]int{2, 16}, Checks: [2]int{15000, 150000}, SeedOffset: 1, Timeout: [2]time.Duration{5 * min, 20 * min}},
		},
		Rule: "exhaustive: every string of length <= 4 (quick) / <= 5 (thorough) over a 27-symbol representative alphabet, each visited once; random: rapid-generated strings up to 64 bytes built from lexeme fragments, arbitrary bytes and runes. Oracle: partition laws, differential against an independent reference tokenizer (kinds, spans, values, numbers as exact rationals), re-scan idempotence, numeric accessors. Non-trivial = the string contains a multi-character lexeme or drives the scanner through a look-ahead state (after 0, 0x, '.', exponent, backslash, '/', '=', '!', '<', '>', inside quotes) with at least one following character; distinct = distinct strings (exhaustive part distinct by construction, random part by hash).",
		Assumptions: []string{
			"the reference tokenizer (harness/reftok) is a faithful transcription of the C09 statement and the TokenKind documentation",
			"unicode.IsSpace is the definition of white space",
			"accessor results are only compared when the value is representable (no uint64/float64 overflow)",
		},
	},
}

// Command vdriver runs one property check: it rebuilds the test binary (and the
// pql CLI where needed) from /repo's working tree, runs the saved replays, the
// known findings and the generated stages as shard processes, merges their
// statistics into /verif/evidence/<ID>.json and maps the outcome to the exit
// status (0 held, 1 violation, 2 infrastructure / inconclusive).
package main

import (
	"bytes"
	"context"
	"crypto/sha256"
	"encoding/binary"
	"encoding/hex"
	"encoding/json"
	"fmt"
	"os"
	"os/exec"
	"path/filepath"
	"regexp"
	"sort"
	"strconv"
	"strings"
	"sync"
	"time"
)

// verifRoot is the directory holding check, harness/, replays/, evidence/:
// /verif, or a snapshot of it when the check script is run from one.
var verifRoot = func() string {
	if r := os.Getenv("VERIF_ROOT"); r != "" {
		return r
	}
	return "/verif"
}()

func main() {
	os.Exit(run(os.Args[1:]))
}

func usage() int {
	fmt.Fprintln(os.Stderr, "usage: check <ID> [quick|thorough] | check <ID> --replay <file>")
	return 2
}

type shardResult struct {
	stage     string
	shard     int
	exit      int
	timedOut  bool
	outDir    string
	log       string
	fuzzExecs int64
	fuzzNew   int64
}

func run(args []string) int {
	if len(args) < 1 {
		return usage()
	}
	id := strings.ToUpper(args[0])
	prop, ok := props[id]
	if !ok {
		fmt.Fprintf(os.Stderr, "unknown property %q\n", id)
		return 2
	}
	tier := os.Getenv("VERIF_TIER")
	replayPath := ""
	for i := 1; i < len(args); i++ {
		switch args[i] {
		case "quick", "thorough":
			tier = args[i]
		case "--replay":
			if i+1 >= len(args) {
				return usage()
			}
			replayPath = args[i+1]
			i++
		default:
			return usage()
		}
	}
	if tier != "thorough" {
		tier = "quick"
	}
	seed := int64(1)
	if s := os.Getenv("VERIF_SEED"); s != "" {
		if n, err := strconv.ParseInt(s, 10, 64); err == nil {
			seed = n
		}
	}
	if seed == 0 {
		seed = 1 // rapid treats 0 as "random"
	}
	if seed < 0 {
		seed = -seed
	}
	seed = seed % 1000000007
	if seed == 0 {
		seed = 1
	}

	start := time.Now()
	os.MkdirAll(filepath.Join(verifRoot, ".work"), 0o755)
	work, err := os.MkdirTemp(filepath.Join(verifRoot, ".work"), "run-"+id+"-")
	if err != nil {
		fmt.Fprintln(os.Stderr, "mktemp:", err)
		return 2
	}
	defer os.RemoveAll(work)

	env := append(os.Environ(),
		"GOFLAGS=-mod=mod", "GOPROXY=off", "GOSUMDB=off", "GOTOOLCHAIN=local",
		"VERIF_TIER="+tier, "VERIF_SEED="+strconv.FormatInt(seed, 10),
	)

	// ---- build from /repo's current working tree ----
	// (VERIF_REPO=<dir> points the harness at another checkout of pql instead:
	// used to try planted changes in scratch worktrees in parallel; the
	// registered commands never set it.)
	modArgs := []string{}
	outRoot := verifRoot // where evidence and new replay files go
	if alt := os.Getenv("VERIF_REPO"); alt != "" {
		outRoot = os.Getenv("VERIF_ALT_OUT")
		if outRoot == "" {
			outRoot = "/tmp/verif-alt"
		}
		gm, err1 := os.ReadFile(filepath.Join(verifRoot, "harness", "go.mod"))
		gs, err2 := os.ReadFile(filepath.Join(verifRoot, "harness", "go.sum"))
		if err1 != nil || err2 != nil {
			fmt.Fprintln(os.Stderr, "cannot read harness go.mod/go.sum")
			return 2
		}
		altMod := filepath.Join(work, "alt.mod")
		os.WriteFile(altMod, []byte(strings.ReplaceAll(string(gm), "=> /repo", "=> "+alt)), 0o644)
		os.WriteFile(filepath.Join(work, "alt.sum"), gs, 0o644)
		modArgs = []string{"-modfile=" + altMod}
		fmt.Printf("note: building against %s instead of /repo\n", alt)
	}
	bin := filepath.Join(work, "props.test")
	buildArgs := append([]string{"test", "-c", "-vet=off", "-o", bin}, modArgs...)
	if prop.Race {
		buildArgs = append(buildArgs, "-race")
	}
	buildArgs = append(buildArgs, "./props")
	if out, err := runCmd(filepath.Join(verifRoot, "harness"), env, 20*time.Minute, "go", buildArgs...); err != nil {
		fmt.Fprintf(os.Stderr, "BUILD FAILED (harness against /repo):\n%s\n", out)
		return 2
	}
	if prop.NeedCLI {
		cli := filepath.Join(work, "pql")
		if out, err := runCmd(filepath.Join(verifRoot, "harness"), env, 20*time.Minute, "go", append(append([]string{"build"}, modArgs...), "-o", cli, "github.com/runreveal/pql/cmd/pql")...); err != nil {
			fmt.Fprintf(os.Stderr, "BUILD FAILED (cmd/pql):\n%s\n", out)
			return 2
		}
		env = append(env, "VERIF_CLI="+cli)
	}
	env = append(env, "VERIF_SELF="+bin, "VERIF_SCRATCH="+work)
	// native fuzz stages need a binary built with coverage instrumentation
	fuzzBin := ""
	if tier == "thorough" && replayPath == "" {
		for _, st := range prop.Stages {
			if st.Fuzz != "" && st.Shards[1] > 0 {
				fuzzBin = filepath.Join(work, "props.fuzz")
			}
		}
		if fuzzBin != "" {
			if out, err := runCmd(filepath.Join(verifRoot, "harness"), env, 20*time.Minute, "go", append(append([]string{"test", "-c", "-vet=off", "-fuzz=Fuzz"}, modArgs...), "-o", fuzzBin, "./props")...); err != nil {
				fmt.Fprintf(os.Stderr, "BUILD FAILED (fuzz binary):\n%s\n", out)
				return 2
			}
		}
	}

	// ---- explicit replay ----
	if replayPath != "" {
		abs, _ := filepath.Abs(replayPath)
		code, out := runReplay(bin, work, env, abs, prop.Race)
		fmt.Print(out)
		switch code {
		case 0:
			fmt.Printf("replay passes: property=%s replay=%s\n", id, abs)
			return 0
		case 1:
			fmt.Printf("VIOLATION property=%s replay=%s\n", id, abs)
			return 1
		default:
			return 2
		}
	}

	violations := []string{}
	infra := []string{}
	knownLines := []string{}

	// ---- known findings (never written at run time) ----
	known := loadKnown(id)
	knownReplays := map[string]bool{}
	for _, k := range known {
		knownReplays[filepath.Clean(k.replay)] = true
		code, out := runReplay(bin, work, env, k.replay, prop.Race)
		switch code {
		case 1:
			knownLines = append(knownLines, fmt.Sprintf("KNOWN-FINDING: property=%s %s", id, k.what))
		case 0:
			fmt.Printf("note: listed finding no longer reproduces: %s\n", k.what)
		default:
			infra = append(infra, "known-finding replay "+k.replay+": "+tail(out, 10))
		}
	}

	// ---- saved replays: the seconds-long regression tier ----
	replayDir := filepath.Join(verifRoot, "replays", id)
	saved, _ := filepath.Glob(filepath.Join(replayDir, "*.json"))
	sort.Strings(saved)
	nReplays := 0
	for _, f := range saved {
		if knownReplays[filepath.Clean(f)] {
			continue
		}
		nReplays++
		code, out := runReplay(bin, work, env, f, prop.Race)
		switch code {
		case 0:
		case 1:
			violations = append(violations, f)
			fmt.Print(tail(out, 15))
		default:
			infra = append(infra, "replay "+f+": "+tail(out, 10))
		}
	}

	// ---- generated stages ----
	ti := 0
	if tier == "thorough" {
		ti = 1
	}
	var jobs []job
	for _, st := range prop.Stages {
		n := st.Shards[ti]
		for i := 0; i < n; i++ {
			jobs = append(jobs, job{st: st, shard: i, n: n})
		}
	}
	results := make([]shardResult, len(jobs))
	sem := make(chan struct{}, 16)
	var wg sync.WaitGroup
	for ji, j := range jobs {
		wg.Add(1)
		sem <- struct{}{}
		go func(ji int, j job) {
			defer wg.Done()
			defer func() { <-sem }()
			b := bin
			if j.st.Fuzz != "" {
				b = fuzzBin
			}
			results[ji] = runShard(b, work, env, id, j, ti, seed)
		}(ji, j)
	}
	wg.Wait()

	merged := newMerged()
	for _, r := range results {
		merged.add(r)
		vf := filepath.Join(r.outDir, "violation.json")
		if b, err := os.ReadFile(vf); err == nil {
			sum := sha256.Sum256(b)
			newDir := filepath.Join(outRoot, "replays", id)
			os.MkdirAll(newDir, 0o755)
			dst := filepath.Join(newDir, "v-"+hex.EncodeToString(sum[:6])+".json")
			os.WriteFile(dst, b, 0o644)
			// A violation that is a listed known finding is not reported again.
			if matchesKnown(b, known) {
				continue
			}
			violations = append(violations, dst)
			fmt.Print(tail(r.log, 25))
			continue
		}
		if r.timedOut {
			infra = append(infra, fmt.Sprintf("stage %s shard %d: timed out (inconclusive)\n%s", r.stage, r.shard, tail(r.log, 15)))
		} else if r.exit != 0 {
			infra = append(infra, fmt.Sprintf("stage %s shard %d: exit %d without a violation file\n%s", r.stage, r.shard, r.exit, tail(r.log, 40)))
		}
	}

	// ---- evidence ----
	wall := time.Since(start).Seconds()
	ev := merged.evidence(id, tier, seed, prop, wall, len(violations), nReplays, knownLines)
	os.MkdirAll(filepath.Join(outRoot, "evidence"), 0o755)
	b, _ := json.MarshalIndent(ev, "", " ")
	if err := os.WriteFile(filepath.Join(outRoot, "evidence", id+".json"), append(b, '\n'), 0o644); err != nil {
		infra = append(infra, "writing evidence: "+err.Error())
	}

	for _, l := range knownLines {
		fmt.Println(l)
	}
	seen := map[string]bool{}
	for _, v := range violations {
		if !seen[v] {
			seen[v] = true
			fmt.Printf("VIOLATION property=%s replay=%s\n", id, v)
		}
	}
	if len(violations) > 0 {
		return 1
	}
	if len(infra) > 0 {
		for _, m := range infra {
			fmt.Fprintln(os.Stderr, "INCONCLUSIVE:", m)
		}
		return 2
	}
	fmt.Printf("OK property=%s tier=%s seed=%d evaluations=%d distinct_nontrivial=%d wall=%.1fs\n",
		id, tier, seed, ev.Coverage["evaluations"], ev.Coverage["distinct_nontrivial"], wall)
	return 0
}

type job struct {
	st    Stage
	shard int
	n     int
}

func runCmd(dir string, env []string, timeout time.Duration, name string, args ...string) (string, error) {
	ctx, cancel := context.WithTimeout(context.Background(), timeout)
	defer cancel()
	cmd := exec.CommandContext(ctx, name, args...)
	cmd.Dir = dir
	cmd.Env = env
	var buf bytes.Buffer
	cmd.Stdout = &buf
	cmd.Stderr = &buf
	err := cmd.Run()
	return buf.String(), err
}

func runReplay(bin, work string, env []string, file string, race bool) (int, string) {
	out, err := os.MkdirTemp(work, "replay-")
	if err != nil {
		return 2, err.Error()
	}
	e := append(append([]string{}, env...), "VERIF_REPLAY="+file, "VERIF_OUT="+out)
	log, rerr := runCmd(work, e, 10*time.Minute, bin, "-test.run", "^TestReplay$", "-test.timeout", "9m")
	if rerr == nil {
		return 0, log
	}
	if _, err := os.Stat(filepath.Join(out, "violation.json")); err == nil {
		return 1, log
	}
	return 2, log
}

var reExecs = regexp.MustCompile(`execs: (\d+)`)
var reNew = regexp.MustCompile(`new interesting: (\d+)`)

func runShard(bin, work string, env []string, id string, j job, ti int, seed int64) shardResult {
	st := j.st
	out := filepath.Join(work, fmt.Sprintf("%s-%d", sanitize(st.Name), j.shard))
	os.MkdirAll(out, 0o755)
	r := shardResult{stage: st.Name, shard: j.shard, outDir: out}
	timeout := st.Timeout[ti]
	if timeout == 0 {
		timeout = 15 * time.Minute
	}
	e := append(append([]string{}, env...),
		"VERIF_OUT="+out,
		"VERIF_SHARD="+strconv.Itoa(j.shard),
		"VERIF_NSHARDS="+strconv.Itoa(j.n),
		"VERIF_STAGE="+st.Name,
	)
	var args []string
	if st.Fuzz != "" {
		ft := st.FuzzTime[ti]
		args = []string{"-test.run", "^$", "-test.fuzz", "^" + st.Fuzz + "$", "-test.fuzztime", ft.String(),
			"-test.fuzzcachedir", filepath.Join(out, "fuzzcache"), "-test.timeout", (ft + 5*time.Minute).String(), "-test.parallel", "16"}
		timeout = ft + 6*time.Minute
		e = append(e, "VERIF_CORPUS="+filepath.Join(verifRoot, "corpus"))
	} else {
		args = []string{"-test.run", "^" + st.Test + "$", "-test.timeout", timeout.String(), "-test.v"}
		if st.Checks[ti] > 0 {
			rseed := seed*1000 + int64(j.shard) + 1 + int64(st.SeedOffset)*100
			args = append(args, "-rapid.checks", strconv.Itoa(st.Checks[ti]), "-rapid.seed", strconv.FormatInt(rseed, 10), "-rapid.nofailfile")
			if st.Steps > 0 {
				args = append(args, "-rapid.steps", strconv.Itoa(st.Steps))
			}
		}
	}
	log, err := runCmdKill(out, e, timeout+30*time.Second, bin, args...)
	r.log = log
	if err != nil {
		r.exit = 1
		if ee, ok := err.(*exec.ExitError); ok {
			r.exit = ee.ExitCode()
		}
		if strings.Contains(err.Error(), "killed") || strings.Contains(log, "panic: test timed out") {
			r.timedOut = true
		}
	}
	if st.Fuzz != "" {
		if m := reExecs.FindAllStringSubmatch(log, -1); len(m) > 0 {
			r.fuzzExecs, _ = strconv.ParseInt(m[len(m)-1][1], 10, 64)
		}
		if m := reNew.FindAllStringSubmatch(log, -1); len(m) > 0 {
			r.fuzzNew, _ = strconv.ParseInt(m[len(m)-1][1], 10, 64)
		}
	}
	// keep a copy of failing logs next to the evidence for inspection
	if r.exit != 0 {
		os.MkdirAll(filepath.Join(verifRoot, ".work", "lastlogs"), 0o755)
		os.WriteFile(filepath.Join(verifRoot, ".work", "lastlogs", fmt.Sprintf("%s-%s-%d.log", id, sanitize(st.Name), j.shard)), []byte(log), 0o644)
	}
	return r
}

func runCmdKill(dir string, env []string, timeout time.Duration, name string, args ...string) (string, error) {
	ctx, cancel := context.WithTimeout(context.Background(), timeout)
	defer cancel()
	cmd := exec.CommandContext(ctx, name, args...)
	cmd.Dir = dir
	cmd.Env = env
	var buf bytes.Buffer
	cmd.Stdout = &buf
	cmd.Stderr = &buf
	err := cmd.Run()
	if ctx.Err() != nil {
		return buf.String(), fmt.Errorf("killed after %s", timeout)
	}
	return buf.String(), err
}

func tail(s string, n int) string {
	var lines []string
	for _, l := range strings.Split(strings.TrimRight(s, "\n"), "\n") {
		if !strings.Contains(l, "[rapid] draw ") {
			lines = append(lines, l)
		}
	}
	if len(lines) > n {
		lines = lines[len(lines)-n:]
	}
	return strings.Join(lines, "\n") + "\n"
}

func sanitize(s string) string {
	out := []byte(s)
	for i, c := range out {
		if !(c >= 'a' && c <= 'z' || c >= 'A' && c <= 'Z' || c >= '0' && c <= '9' || c == '-' || c == '_') {
			out[i] = '_'
		}
	}
	return string(out)
}

// ---- known findings ----

type knownFinding struct {
	replay string
	what   string
	caseJS string
}

var reKnown = regexp.MustCompile(`^known: property=(C\d+) replay=(\S+) (.*)$`)

func loadKnown(id string) []knownFinding {
	b, err := os.ReadFile(filepath.Join(verifRoot, "known_findings.txt"))
	if err != nil {
		return nil
	}
	var out []knownFinding
	for _, line := range strings.Split(string(b), "\n") {
		m := reKnown.FindStringSubmatch(strings.TrimSpace(line))
		if m == nil || m[1] != id {
			continue
		}
		p := m[2]
		if !filepath.IsAbs(p) {
			p = filepath.Join(verifRoot, p)
		}
		k := knownFinding{replay: p, what: m[3]}
		if rb, err := os.ReadFile(p); err == nil {
			var r struct {
				Kind string          `json:"kind"`
				Case json.RawMessage `json:"case"`
			}
			if json.Unmarshal(rb, &r) == nil {
				k.caseJS = r.Kind + "|" + compactJSON(r.Case)
			}
		}
		out = append(out, k)
	}
	return out
}

func compactJSON(b []byte) string {
	var buf bytes.Buffer
	if json.Compact(&buf, b) != nil {
		return string(b)
	}
	return buf.String()
}

// matchesKnown: a violation is "the listed finding" only if it is the very
// same case (kind and input); anything else of the same property is reported.
func matchesKnown(violation []byte, known []knownFinding) bool {
	var r struct {
		Kind string          `json:"kind"`
		Case json.RawMessage `json:"case"`
	}
	if json.Unmarshal(violation, &r) != nil {
		return false
	}
	key := r.Kind + "|" + compactJSON(r.Case)
	for _, k := range known {
		if k.caseJS != "" && k.caseJS == key {
			return true
		}
	}
	return false
}

// ---- merging shard statistics ----

type shardStats struct {
	Stage    string           `json:"stage"`
	Evals    int64            `json:"evaluations"`
	NTExact  int64            `json:"nontrivial_exact"`
	Classes  map[string]int64 `json:"classes"`
	Samples  map[string][]any `json:"samples"`
	Notes    []string         `json:"notes"`
	Exhaust  bool             `json:"exhaustive"`
	ExhaustN string           `json:"exhaustive_bound"`
}

type merged struct {
	evals    int64
	ntExact  int64
	nt       map[uint64]struct{}
	classes  map[string]int64
	samples  map[string][]any
	notes    []string
	stages   map[string]*stageSum
	fuzzEx   int64
	fuzzNew  int64
	exhaust  []string
	shards   int
	allExh   bool
	anyStage bool
}

type stageSum struct {
	Evals      int64 `json:"evaluations"`
	NonTrivial int64 `json:"nontrivial_counted"`
	Shards     int   `json:"shards"`
	FuzzExecs  int64 `json:"fuzz_execs,omitempty"`
	nt         map[uint64]struct{}
}

func newMerged() *merged {
	return &merged{nt: map[uint64]struct{}{}, classes: map[string]int64{}, samples: map[string][]any{}, stages: map[string]*stageSum{}, allExh: true}
}

func (m *merged) add(r shardResult) {
	m.shards++
	ss := m.stages[r.stage]
	if ss == nil {
		ss = &stageSum{nt: map[uint64]struct{}{}}
		m.stages[r.stage] = ss
	}
	ss.Shards++
	if r.fuzzExecs > 0 {
		m.fuzzEx += r.fuzzExecs
		m.fuzzNew += r.fuzzNew
		m.evals += r.fuzzExecs
		ss.Evals += r.fuzzExecs
		ss.FuzzExecs += r.fuzzExecs
	}
	files, _ := filepath.Glob(filepath.Join(r.outDir, "*.stats.json"))
	for _, f := range files {
		b, err := os.ReadFile(f)
		if err != nil {
			continue
		}
		var s shardStats
		if json.Unmarshal(b, &s) != nil {
			continue
		}
		m.anyStage = true
		m.evals += s.Evals
		m.ntExact += s.NTExact
		ss.Evals += s.Evals
		ss.NonTrivial += s.NTExact
		for k, v := range s.Classes {
			m.classes[s.Stage+":"+k] += v
		}
		for k, v := range s.Samples {
			key := s.Stage + ":" + k
			for _, x := range v {
				if len(m.samples[key]) < 2 {
					m.samples[key] = append(m.samples[key], x)
				}
			}
		}
		for _, n := range s.Notes {
			m.notes = append(m.notes, s.Stage+": "+n)
		}
		if s.Exhaust {
			m.exhaust = append(m.exhaust, s.Stage+": "+s.ExhaustN)
		} else {
			m.allExh = false
		}
		nb, err := os.ReadFile(strings.TrimSuffix(f, ".stats.json") + ".nt.bin")
		if err == nil {
			for i := 0; i+8 <= len(nb); i += 8 {
				h := binary.LittleEndian.Uint64(nb[i:])
				// distinctness is per stage: the same canonical form in two
				// stages is two different cases (different oracle).
				hh := h ^ hashStr(s.Stage)
				if _, ok := m.nt[hh]; !ok {
					m.nt[hh] = struct{}{}
					ss.NonTrivial++
				}
			}
		}
	}
}

func hashStr(s string) uint64 {
	var h uint64 = 14695981039346656037
	for i := 0; i < len(s); i++ {
		h ^= uint64(s[i])
		h *= 1099511628211
	}
	return h
}

// Evidence mirrors EVIDENCE.schema.json.
type Evidence struct {
	PropertyID  string         `json:"property_id"`
	Tier        string         `json:"tier"`
	Seed        int64          `json:"seed"`
	Level       string         `json:"level"`
	Coverage    map[string]any `json:"coverage"`
	Assumptions []string       `json:"assumptions"`
	WallS       float64        `json:"wall_s"`
	Violations  int            `json:"violations"`
}

func (m *merged) evidence(id, tier string, seed int64, p Prop, wall float64, violations, nReplays int, known []string) Evidence {
	var samples []any
	keys := make([]string, 0, len(m.samples))
	for k := range m.samples {
		keys = append(keys, k)
	}
	sort.Strings(keys)
	for _, k := range keys {
		for _, s := range m.samples[k] {
			if len(samples) < 40 {
				samples = append(samples, map[string]any{"class": k, "case": s})
			}
		}
	}
	if len(samples) == 0 {
		samples = append(samples, "no sample recorded by this run")
	}
	cov := map[string]any{
		"evaluations":         m.evals,
		"distinct_nontrivial": int64(len(m.nt)) + m.ntExact,
		"rule":                p.Rule,
		"samples":             samples,
		"classes":             m.classes,
		"stages":              m.stages,
		"saved_replays_run":   nReplays,
		"shard_processes":     m.shards,
	}
	if len(m.exhaust) > 0 {
		cov["exhaustive_parts"] = m.exhaust
	}
	cov["exhaustive"] = m.anyStage && m.allExh && m.fuzzEx == 0
	if m.fuzzEx > 0 {
		cov["native_fuzz_execs"] = m.fuzzEx
		cov["native_fuzz_new_interesting"] = m.fuzzNew
		cov["native_fuzz_note"] = "fuzz executions are counted in evaluations; their non-triviality cannot be measured inside fuzz workers and they contribute 0 to distinct_nontrivial"
	}
	if len(m.notes) > 0 {
		sort.Strings(m.notes)
		if len(m.notes) > 30 {
			m.notes = m.notes[:30]
		}
		cov["notes"] = m.notes
	}
	if len(known) > 0 {
		cov["known_findings_reproduced"] = known
	}
	return Evidence{
		PropertyID: id, Tier: tier, Seed: seed, Level: "exploration", Coverage: cov,
		Assumptions: p.Assumptions, WallS: wall, Violations: violations,
	}
}

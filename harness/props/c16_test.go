package props

// C16 — the command-line tool compiles exactly the statements it is given.

import (
	"bytes"
	"context"
	"fmt"
	"os"
	"os/exec"
	"path/filepath"
	"sort"
	"strings"
	"syscall"
	"testing"
	"time"

	"github.com/runreveal/pql"
	"github.com/runreveal/pql/parser"
	"pgregory.net/rapid"

	"verif/harness/gen"
	"verif/harness/harn"
)

type cliStmt struct {
	Kind string `json:"kind"` // query | let | badlet | badquery | empty
	Text string `json:"text"`
}

type cliScript struct {
	Stmts []cliStmt `json:"stmts"`
	// Seps[i] is written after statement i and its semicolon; Lead before the first.
	Lead          string   `json:"lead"`
	Seps          []string `json:"seps"`
	FinalSemi     bool     `json:"final_semicolon"`
	FinalNewline  bool     `json:"final_newline"`
	CRLF          bool     `json:"crlf"`
	Transport     string   `json:"transport"` // stdin | file | files | files-with-stdin
	Cuts          []int    `json:"cuts"`      // byte positions (mod len) where the input is cut into files
	OutFile       bool     `json:"out_file"`
	StaleOut      bool     `json:"stale_out_file"`  // the -o file exists before the run
	OutDevNull    bool     `json:"out_dev_null"`    // -o /dev/null: only status and stderr can be observed
	LongLineBytes int      `json:"long_line_bytes"` // >0: the last query carries a string literal this long
	// RelName (transport "file"): the script is passed under this bare file
	// name, relative to the working directory of the command
	RelName string `json:"rel_name,omitempty"`
	// DirAt >= 0 (transport "files" only): a directory is passed as one more
	// input after that many files; reading it fails
	DirAt *int `json:"dir_at,omitempty"`
}

func (s *cliScript) text() string {
	var sb strings.Builder
	sb.WriteString(s.Lead)
	for i, st := range s.Stmts {
		sb.WriteString(st.Text)
		last := i == len(s.Stmts)-1
		if !last || s.FinalSemi {
			sb.WriteString(";")
		}
		if i < len(s.Seps) {
			sep := s.Seps[i]
			if last && !s.FinalSemi {
				// nothing but white space / comments may follow an unterminated statement
				sep = strings.ReplaceAll(sep, ";", "")
			}
			sb.WriteString(sep)
		}
	}
	out := sb.String()
	if s.FinalNewline && !strings.HasSuffix(out, "\n") {
		out += "\n"
	}
	if !s.FinalNewline {
		out = strings.TrimRight(out, "\n")
	}
	if s.CRLF {
		out = strings.ReplaceAll(out, "\n", "\r\n")
	}
	return out
}

// beforeLongLine is the script made of the statements whose terminating
// semicolon lies on a line before the first over-long line: those have been
// read completely, whatever happens to the long line.
func (s *cliScript) beforeLongLine() *cliScript {
	var sb strings.Builder
	sb.WriteString(s.Lead)
	var ends []int
	longAt := -1
	for i, st := range s.Stmts {
		if longAt < 0 {
			if j := longestLineStart(st.Text, 65000); j >= 0 {
				longAt = sb.Len() + j
			}
		}
		sb.WriteString(st.Text)
		sb.WriteString(";")
		ends = append(ends, sb.Len())
		if i < len(s.Seps) {
			if longAt < 0 {
				if j := longestLineStart(s.Seps[i], 65000); j >= 0 {
					longAt = sb.Len() + j
				}
			}
			sb.WriteString(s.Seps[i])
		}
	}
	out := &cliScript{Lead: s.Lead, FinalSemi: true, FinalNewline: true}
	if longAt < 0 {
		return out
	}
	text := sb.String()
	lineStart := strings.LastIndexByte(text[:longAt], '\n') + 1
	for i, e := range ends {
		if e <= lineStart {
			out.Stmts = append(out.Stmts, s.Stmts[i])
			out.Seps = append(out.Seps, "\n")
		}
	}
	return out
}

// longestLineStart: offset of the first line of t longer than n bytes, or -1.
func longestLineStart(t string, n int) int {
	off := 0
	for _, line := range strings.SplitAfter(t, "\n") {
		if len(line) > n {
			return off
		}
		off += len(line)
	}
	return -1
}

type cliExpect struct {
	stdout     string
	failures   int
	asserted   bool // exit status / stderr are asserted (no empty statements, no unterminated final let)
	statements int
}

// cliModel folds the statement list with pql.Compile.
func cliModel(s *cliScript) cliExpect {
	var out strings.Builder
	exp := cliExpect{asserted: true}
	acc := ""
	for i, st := range s.Stmts {
		last := i == len(s.Stmts)-1
		text := st.Text
		isLet := isLetStatement(text)
		if strings.TrimSpace(stripLeadingComments(text)) == "" {
			if last && !s.FinalSemi {
				continue // nothing at the end of input
			}
			// an empty statement between semicolons: status not asserted
			exp.asserted = false
			continue
		}
		exp.statements++
		if isLet {
			if last && !s.FinalSemi {
				exp.asserted = false // an unterminated final let: only stdout is checked
				continue
			}
			if _, err := pql.Compile(acc + text + ";T"); err != nil {
				exp.failures++
			} else {
				acc += text + ";\n"
			}
			continue
		}
		sql, err := pql.Compile(acc + text)
		if err != nil {
			exp.failures++
			continue
		}
		out.WriteString(sql)
		out.WriteString("\n\n")
	}
	exp.stdout = out.String()
	return exp
}

// isLetStatement: what kind of statement a piece is, is the library's call:
// a piece that parses as one tabular expression is a query, one that parses as
// a let statement is a let; a piece that does not parse is classified by its
// first token.
func isLetStatement(text string) bool {
	if stmts, err := parser.Parse(text); err == nil && len(stmts) == 1 {
		switch stmts[0].(type) {
		case *parser.LetStatement:
			return true
		case *parser.TabularExpr:
			return false
		}
	}
	return startsWithLet(stripLeadingComments(text))
}

// startsWithLet: the first token is the identifier `let`.
func startsWithLet(t string) bool {
	if !strings.HasPrefix(t, "let") {
		return false
	}
	if len(t) == 3 {
		return true
	}
	c := t[3]
	return !(c == '_' || c >= 'a' && c <= 'z' || c >= 'A' && c <= 'Z' || c >= '0' && c <= '9')
}

func stripLeadingComments(s string) string {
	for {
		t := strings.TrimLeft(s, " \t\n\r")
		if strings.HasPrefix(t, "//") {
			if i := strings.IndexByte(t, '\n'); i >= 0 {
				s = t[i+1:]
				continue
			}
			return ""
		}
		return t
	}
}

type cliRun struct {
	stdout, stderr string
	exit           int
	outFile        string
	timedOut       bool
}

// pieces cuts the input into the up to three files of the several-files modes.
func (s *cliScript) pieces(input string) []string {
	var cuts []int
	for _, c := range s.Cuts {
		if len(input) > 0 {
			cuts = append(cuts, ((c%(len(input)+1))+len(input)+1)%(len(input)+1))
		}
	}
	if len(cuts) > 2 {
		cuts = cuts[:2]
	}
	if len(cuts) == 2 && cuts[0] > cuts[1] {
		cuts[0], cuts[1] = cuts[1], cuts[0]
	}
	pieces := []string{}
	prev := 0
	for _, c := range cuts {
		pieces = append(pieces, input[prev:c])
		prev = c
	}
	return append(pieces, input[prev:])
}

// readBeforeDir: the script made of the statements whose semicolon lies in
// the bytes read before the unreadable directory argument.
func (s *cliScript) readBeforeDir(input string) *cliScript {
	pieces := s.pieces(input)
	at := min(max(*s.DirAt, 0), len(pieces))
	limit := 0
	for _, p := range pieces[:at] {
		limit += len(p)
	}
	out := &cliScript{Lead: s.Lead, FinalSemi: true, FinalNewline: true}
	var sb strings.Builder
	sb.WriteString(s.Lead)
	for i, st := range s.Stmts {
		sb.WriteString(st.Text)
		last := i == len(s.Stmts)-1
		if last && !s.FinalSemi {
			break // never terminated: pending when the failure strikes
		}
		sb.WriteString(";")
		end := sb.Len()
		if s.CRLF {
			end += strings.Count(sb.String(), "\n")
		}
		if end <= limit {
			out.Stmts = append(out.Stmts, st)
			out.Seps = append(out.Seps, "\n")
		}
		if i < len(s.Seps) {
			sb.WriteString(s.Seps[i])
		}
	}
	return out
}

func runCLI(s *cliScript, input string) (cliRun, error) {
	bin := os.Getenv("VERIF_CLI")
	if bin == "" {
		return cliRun{}, fmt.Errorf("VERIF_CLI not set")
	}
	scratch := os.Getenv("VERIF_SCRATCH")
	if scratch == "" {
		scratch = os.TempDir()
	}
	dir, err := os.MkdirTemp(scratch, "cli-")
	if err != nil {
		return cliRun{}, err
	}
	defer os.RemoveAll(dir)
	var args []string
	stdin := ""
	switch s.Transport {
	case "file":
		p := filepath.Join(dir, "in?.pql")
		if s.RelName != "" {
			p = filepath.Join(dir, s.RelName)
		}
		os.WriteFile(p, []byte(input), 0o644)
		os.WriteFile(filepath.Join(dir, "in1.pql"), []byte("DECOY | count;\n"), 0o644)
		if s.RelName != "" {
			p = s.RelName
		}
		args = append(args, p)
	case "files", "files-with-stdin":
		pieces := s.pieces(input)
		for i, piece := range pieces {
			if s.Transport == "files-with-stdin" && i == len(pieces)/2 {
				args = append(args, "-")
				stdin = piece
				continue
			}
			// file names with pattern characters, next to files the pattern would
			// match: an argument names one file
			p := filepath.Join(dir, fmt.Sprintf("in[%d].pql", i))
			os.WriteFile(p, []byte(piece), 0o644)
			os.WriteFile(filepath.Join(dir, fmt.Sprintf("in%d.pql", i)), []byte("DECOY | count;\n"), 0o644)
			args = append(args, p)
		}
		if s.DirAt != nil && s.Transport == "files" {
			d := filepath.Join(dir, "part.d")
			os.Mkdir(d, 0o755)
			at := min(max(*s.DirAt, 0), len(args))
			args = append(args[:at], append([]string{d}, args[at:]...)...)
		}
	case "fifo":
		// a named pipe: readable once, front to back, and not seekable
		p := filepath.Join(dir, "in.fifo")
		if err := syscall.Mkfifo(p, 0o644); err != nil {
			return cliRun{}, err
		}
		go func() {
			if f, err := os.OpenFile(p, os.O_WRONLY, 0); err == nil {
				f.WriteString(input)
				f.Close()
			}
		}()
		args = append(args, p)
	default:
		stdin = input
	}
	outPath := ""
	if s.OutDevNull {
		args = append([]string{"-o", "/dev/null"}, args...)
	} else if s.OutFile {
		outPath = filepath.Join(dir, "out.sql")
		if s.StaleOut {
			// the output file exists already and is longer than what this run writes
			os.WriteFile(outPath, []byte(strings.Repeat("-- stale line from an earlier run\n", 400)), 0o644)
		}
		args = append([]string{"-o", outPath}, args...)
	}
	ctx, cancel := context.WithTimeout(context.Background(), 60*time.Second)
	defer cancel()
	cmd := exec.CommandContext(ctx, bin, args...)
	cmd.Dir = dir
	cmd.Stdin = strings.NewReader(stdin)
	var so, se bytes.Buffer
	cmd.Stdout = &so
	cmd.Stderr = &se
	rerr := cmd.Run()
	r := cliRun{stdout: so.String(), stderr: se.String()}
	if ctx.Err() != nil {
		r.timedOut = true
		return r, nil
	}
	if rerr != nil {
		if ee, ok := rerr.(*exec.ExitError); ok {
			r.exit = ee.ExitCode()
		} else {
			return r, rerr
		}
	}
	if outPath != "" {
		b, _ := os.ReadFile(outPath)
		r.outFile = string(b)
	}
	return r, nil
}

// checkCLI is C16's oracle.
func checkCLI(s *cliScript) (msg string, harnessErr string) {
	input := s.text()
	exp := cliModel(s)
	run, err := runCLI(s, input)
	if err != nil {
		return "", "running the CLI: " + err.Error()
	}
	if run.timedOut {
		return "", "the CLI did not finish within 60 s (inconclusive)"
	}
	got := run.stdout
	if s.OutDevNull {
		if run.stdout != "" {
			return fmt.Sprintf("with -o /dev/null the tool still writes to standard output: %+q", trunc(run.stdout, 200)), ""
		}
		if exp.asserted && s.LongLineBytes <= 65000 && s.DirAt == nil {
			if (run.exit != 0) != (exp.failures > 0) {
				return fmt.Sprintf("with -o /dev/null: exit status %d although %d statement(s) failed\n stderr: %s", run.exit, exp.failures, trunc(run.stderr, 300)), ""
			}
			if (strings.TrimSpace(run.stderr) != "") != (exp.failures > 0) {
				return fmt.Sprintf("with -o /dev/null: standard error is %+q although %d statement(s) failed", trunc(run.stderr, 300), exp.failures), ""
			}
		}
		return "", ""
	}
	if s.OutFile {
		if run.stdout != "" {
			return fmt.Sprintf("with -o the tool still writes to standard output: %+q", trunc(run.stdout, 200)), ""
		}
		got = run.outFile
	}
	if s.DirAt != nil && s.Transport == "files" && s.LongLineBytes <= 65000 {
		// one input cannot be read: everything read before it is processed, the
		// failure is reported, nothing after it is read
		must := cliModel(s.readBeforeDir(input))
		if run.exit == 0 {
			return fmt.Sprintf("an input that cannot be read (a directory among the files) and exit status 0\n stderr: %s", trunc(run.stderr, 300)), ""
		}
		if got != must.stdout {
			return fmt.Sprintf("an input that cannot be read (a directory among the files): the output is not that of the statements read before it\n expected: %+q\n got:      %+q\n stderr: %s", trunc(must.stdout, 900), trunc(got, 900), trunc(run.stderr, 300)), ""
		}
		return "", ""
	}
	if s.LongLineBytes > 65000 {
		// acceptable: complete correct processing, or a reported failure with
		// stdout a prefix of the expected output that still holds the SQL of
		// every statement that ended on a line before the over-long one
		if got == exp.stdout && (run.exit != 0) == (exp.failures > 0) {
			return "", ""
		}
		must := cliModel(s.beforeLongLine()).stdout
		if run.exit != 0 && strings.HasPrefix(exp.stdout, got) && strings.HasPrefix(got, must) {
			return "", ""
		}
		if run.exit != 0 && strings.HasPrefix(exp.stdout, got) {
			return fmt.Sprintf("a line of %d bytes: a failure is reported (exit status %d) but the output lacks statements that ended on earlier lines: %d bytes written, the statements before that line produce %d\n stderr: %s", s.LongLineBytes, run.exit, len(got), len(must), trunc(run.stderr, 300)), ""
		}
		return fmt.Sprintf("a line of %d bytes: exit status %d with %d of %d expected output bytes: statements were dropped without an error", s.LongLineBytes, run.exit, len(got), len(exp.stdout)), ""
	}
	if got != exp.stdout {
		return fmt.Sprintf("output differs from the library's SQL for the statements given\n input: %+q\n expected: %+q\n got:      %+q\n stderr: %s", trunc(input, 600), trunc(exp.stdout, 900), trunc(got, 900), trunc(run.stderr, 300)), ""
	}
	if exp.asserted {
		if (run.exit != 0) != (exp.failures > 0) {
			return fmt.Sprintf("exit status %d although %d statement(s) failed\n input: %+q\n stderr: %s", run.exit, exp.failures, trunc(input, 600), trunc(run.stderr, 300)), ""
		}
		if (strings.TrimSpace(run.stderr) != "") != (exp.failures > 0) {
			return fmt.Sprintf("standard error is %+q although %d statement(s) failed\n input: %+q", trunc(run.stderr, 300), exp.failures, trunc(input, 600)), ""
		}
	}
	return "", ""
}

func init() {
	replayers["cli"] = jsonReplayer(func(s cliScript) string {
		msg, herr := checkCLI(&s)
		if herr != "" {
			return "harness: " + herr
		}
		return msg
	})
}

var cliSeps = []string{"\n\u00a0\u00a0", "\f", "\n\v", "\n\u2028", "\u3000\n", "\n\u0085 ", longCommentBlock(1100), longCommentBlock(4200), "\n// disabled for now:\rU | count;\n", "\n// a\rb\n", "\n", "\n", "\n", "\n", "\n", "\n", " ", "", "\n\n", "\n// a comment; with a semicolon\n", "  \n\t", "\n// c\n\n", " // trailing comment\n"}

// cliWords: identifier-like words that occur as string literals in the
// command's source (plus a few any shell knows).
func cliWords() []string {
	out := []string{"exit", "quit", "help", "version", "go", "end", "run", "clear"}
	b, err := os.ReadFile(filepath.Join(repoDir(), "cmd", "pql", "main.go"))
	if err != nil {
		return out
	}
	seen := map[string]bool{}
	for _, w := range out {
		seen[w] = true
	}
	for _, m := range wordLiteral.FindAllStringSubmatch(string(b), -1) {
		w := m[1]
		if !seen[w] && plainOK(w) {
			seen[w] = true
			out = append(out, w)
		}
	}
	sort.Strings(out)
	return out
}

// longCommentBlock: comment lines of at least n bytes in all (a file header,
// a commented-out block) between two statements.
func longCommentBlock(n int) string {
	var sb strings.Builder
	sb.WriteString("\n")
	for i := 0; sb.Len() < n; i++ {
		fmt.Fprintf(&sb, "// %02d: nightly report; see the handbook, section %d\n", i, i%7)
	}
	return sb.String()
}

func layoutStmt(rt *rapid.T, g *gen.G, pr *gen.Printed) string {
	n := len(pr.Toks)
	seps := make([]string, n+1)
	style := rapid.IntRange(0, 2).Draw(rt, "stmtlayout")
	for i := range seps {
		switch {
		case i == 0 || i == n:
			seps[i] = ""
		case style == 0:
			seps[i] = " "
		case style == 1 && pr.Toks[i].Text == "|":
			seps[i] = "\n"
		case style == 2:
			seps[i] = rapid.SampledFrom([]string{" ", " ", "\n", "\n  ", " // c\n", "\t"}).Draw(rt, "tokensep")
		default:
			seps[i] = " "
		}
	}
	src := gen.Layout(pr, seps).Src
	// now and then a comment between the statement's last token and its semicolon
	switch rapid.IntRange(0, 9).Draw(rt, "tailcomment") {
	case 0:
		src += " // note\n"
	case 1:
		src += "\n// note; with a semicolon\n  "
	}
	return src
}

func TestC16Scripts(t *testing.T) {
	st := harn.NewStats(env, "scripts")
	defer st.Flush()
	rapid.Check(t, func(rt *rapid.T) {
		g := gen.NewG(rt, gen.Cfg{MaxDepth: 2, MaxOps: 3, JoinDepth: 1, Compilable: true})
		s := &cliScript{}
		var letNames, letTexts, letTextNames []string
		kinds := ""
		if rapid.IntRange(0, 9).Draw(rt, "rebindpattern") == 0 {
			// a binding, a dependent one, a rebinding, and the first text again:
			// every query sees the lets accepted so far, in order
			a, b := rapid.IntRange(1, 9).Draw(rt, "reb1"), rapid.IntRange(10, 99).Draw(rt, "reb2")
			q := cliStmt{"query", "T | where a > lim and b < high | count"}
			first := cliStmt{"let", fmt.Sprintf("let lim = %d", a)}
			dep := cliStmt{"let", "let high = lim * 100"}
			s.Stmts = append(s.Stmts, first, dep, q, cliStmt{"let", fmt.Sprintf("let lim = %d", b)}, q, dep, q, first, q, dep, q)
			letNames = append(letNames, "lim", "high")
			letTexts, letTextNames = append(letTexts, first.Text, dep.Text), append(letTextNames, "lim", "high")
			kinds += "LLQ*LQ*LQ*LQ*LQ*"
		}
		n := rapid.IntRange(0, 8).Draw(rt, "nstmts")
		for i := 0; i < n; i++ {
			k := rapid.IntRange(0, 11).Draw(rt, "stmtkind")
			switch {
			case k <= 3:
				q := g.Tabular(1)
				// use an accepted-or-not let by name, so the prelude matters
				if len(letNames) > 0 && rapid.Bool().Draw(rt, "uselet") {
					name := rapid.SampledFrom(letNames).Draw(rt, "whichlet")
					q.Ops = append(q.Ops, &gen.Where{Pred: &gen.Binary{Op: "==", X: gen.ID("a"), Y: gen.ID(name)}})
					kinds += "Q*"
				} else {
					kinds += "Q"
				}
				s.Stmts = append(s.Stmts, cliStmt{"query", layoutStmt(rt, g, gen.PrintTabular(q))})
			case k <= 6:
				name := rapid.SampledFrom([]string{"n", "lim", "v", "w"}).Draw(rt, "letname")
				var x gen.Expr = &gen.Num{Text: fmt.Sprint(rapid.IntRange(0, 9).Draw(rt, "letval"))}
				if len(letNames) > 0 && rapid.IntRange(0, 2).Draw(rt, "chain") == 0 {
					x = &gen.Binary{Op: "+", X: gen.ID(rapid.SampledFrom(letNames).Draw(rt, "chainof")), Y: x}
				}
				l := &gen.Let{Name: gen.Ident{Name: name}, X: x}
				text := layoutStmt(rt, g, gen.Print(&gen.Program{Stmts: []gen.Stmt{l}}))
				if len(letTexts) > 0 && rapid.IntRange(0, 3).Draw(rt, "repeatlet") == 0 {
					// the very text of an earlier let once more (other lets of
					// the same name may lie in between)
					k := rapid.IntRange(0, len(letTexts)-1).Draw(rt, "whichrepeat")
					text, name = letTexts[k], letTextNames[k]
				}
				letTexts, letTextNames = append(letTexts, text), append(letTextNames, name)
				s.Stmts = append(s.Stmts, cliStmt{"let", text})
				letNames = append(letNames, name)
				kinds += "L"
			case k == 7:
				name := rapid.SampledFrom([]string{"n", "bad", "w"}).Draw(rt, "badletname")
				text := rapid.SampledFrom([]string{"let %s = zz_unbound", "let %s = ", "let %s 5", "let %s = `q`", "let %s = tolower()"}).Draw(rt, "badlet")
				s.Stmts = append(s.Stmts, cliStmt{"badlet", fmt.Sprintf(text, name)})
				letNames = append(letNames, name) // later queries may try to use it: must then fail or see the earlier binding
				kinds += "l"
			case k <= 9:
				s.Stmts = append(s.Stmts, cliStmt{"badquery", rapid.SampledFrom([]string{"T | where", "T | where tolower()", "T | bogus", "| count", "T | take 1.5", "T | where $left.a == 1", "T | join kind=weird (U) on k", "T T", "T | where a == 'x' 'y'", "#! | where ) oops", "#!/usr/bin/env pql", "#", "T | count /* | take", "let | take 1", "let", "let // the table\n| count", "let x", "`let` | take"}).Draw(rt, "badquery")})
				kinds += "q"
			case k == 10:
				s.Stmts = append(s.Stmts, cliStmt{"empty", rapid.SampledFrom([]string{"", " ", "// only a comment\n"}).Draw(rt, "empty")})
				kinds += "e"
			case k == 11 && rapid.Bool().Draw(rt, "urlstring"):
				// comment openers and semicolons inside string literals are text
				s.Stmts = append(s.Stmts, cliStmt{"query", rapid.SampledFrom([]string{
					"T | where u == \"http://h/p\" | count",
					"T | where u == 'a//b' and a > 1",
					"T | extend v = strcat('//', s, \"/* ; */\") | take 2",
					"T | where s == \"x;y\" // tail; comment\n| count",
					"T | where s == 'it\\'s // not a comment' | take 1",
					"T | where `a\\` == 1",
					"T | where s == 'a\ufeffb' | count",
					"T | where s == 'first\rsecond' | count",
					"T | where `x\ry` > 1 // c\rd\n| take 1",
					"`a\ufeffb` | where `\ufeff` != '\u00a0' | take 1",
					"T | project `C:\\logs\\`, b | where `C:\\logs\\` != 'x\\\\'",
					"T | extend r = hits/`cache misses` | take 1",
					"T | where s == \"tail\\\\\" // c\n| count",
				}).Draw(rt, "urlquery")})
				kinds += "Q"
			case k == 11:
				// a column called like a word of the command's own source, on a
				// line of its own inside a statement
				w := rapid.SampledFrom(cliWords()).Draw(rt, "cliword")
				s.Stmts = append(s.Stmts, cliStmt{"query", "T\n| project\n    a,\n    " + w + "\n| take 1"})
				kinds += "Q"
			default:
				s.Stmts = append(s.Stmts, cliStmt{"query", "T"})
				kinds += "Q"
			}
		}
		s.Lead = rapid.SampledFrom([]string{"", "", "\n", "// header\n", "  "}).Draw(rt, "lead")
		for range s.Stmts {
			s.Seps = append(s.Seps, rapid.SampledFrom(cliSeps).Draw(rt, "sep"))
		}
		s.FinalSemi = rapid.Bool().Draw(rt, "finalsemi")
		s.FinalNewline = rapid.Bool().Draw(rt, "finalnewline")
		s.CRLF = rapid.IntRange(0, 5).Draw(rt, "crlf") == 0
		s.Transport = rapid.SampledFrom([]string{"stdin", "stdin", "file", "files", "files", "files-with-stdin", "fifo"}).Draw(rt, "transport")
		s.Cuts = []int{rapid.IntRange(0, 100000).Draw(rt, "cut1"), rapid.IntRange(0, 100000).Draw(rt, "cut2")}
		s.OutFile = rapid.IntRange(0, 3).Draw(rt, "outfile") == 0
		s.StaleOut = s.OutFile && rapid.Bool().Draw(rt, "staleout")
		if !s.OutFile && rapid.IntRange(0, 11).Draw(rt, "devnull") == 0 {
			s.OutDevNull = true
		}
		if s.Transport == "file" && rapid.IntRange(0, 2).Draw(rt, "relname") == 0 {
			// a file is a file whatever it is called
			s.RelName = rapid.SampledFrom([]string{"version", "help", "completion", "query", "pql", "run", "o", "out", "compile", "fmt", "x.sql", "-o.pql", "--", "stdin", "true", "1"}).Draw(rt, "relnamev")
			if strings.HasPrefix(s.RelName, "-") {
				s.RelName = "./" + s.RelName
			}
		}
		if s.Transport == "files" && rapid.IntRange(0, 5).Draw(rt, "dirarg") == 0 {
			at := rapid.IntRange(0, 3).Draw(rt, "dirat")
			s.DirAt = &at
		}
		// an unterminated statement whose text ends in a comment needs the newline
		if len(s.Stmts) > 0 && !s.FinalSemi {
			s.FinalNewline = s.FinalNewline || strings.Contains(s.Stmts[len(s.Stmts)-1].Text, "//")
		}
		switch rapid.IntRange(0, 26).Draw(rt, "longline") {
		case 24:
			// hundreds of failing statements: the exit status is non-zero for
			// any number of failures
			nbad := rapid.SampledFrom([]int{255, 256, 257, 512, 768}).Draw(rt, "nbad")
			for i := 0; i < nbad; i++ {
				s.Stmts = append(s.Stmts, cliStmt{"badquery", fmt.Sprintf("T | nosuchoperator %d", i)})
				s.Seps = append(s.Seps, "\n")
			}
			s.Stmts = append(s.Stmts, cliStmt{"query", "U | count"})
			s.Seps = append(s.Seps, "\n")
			kinds += "qQ"
		case 25, 26:
			// many small multi-line statements: more input than any buffer of
			// the line reader holds at once
			nmany := rapid.IntRange(60, 400).Draw(rt, "nmany")
			s.Stmts = append(s.Stmts, cliStmt{"let", "let limit = 7"})
			s.Seps = append(s.Seps, "\n")
			for i := 0; i < nmany; i++ {
				s.Stmts = append(s.Stmts, cliStmt{"query", fmt.Sprintf("Table%03d\n| where col%03d == %d\n| take limit", i, i, i)})
				s.Seps = append(s.Seps, "\n")
			}
			kinds += "LQ*"
		case 0:
			// a line beyond the line reader's 64 KiB limit
			s.LongLineBytes = 66000 + rapid.IntRange(0, 4000).Draw(rt, "longby")
			if n := len(s.Seps); n > 0 && !strings.Contains(s.Seps[n-1], "\n") && rapid.IntRange(0, 3).Draw(rt, "ownline") > 0 {
				s.Seps[n-1] += "\n"
			}
			long := "T | where a == '" + strings.Repeat("x", s.LongLineBytes) + "'"
			if rapid.Bool().Draw(rt, "longinside") {
				// the over-long line lies inside a statement whose first lines
				// form a complete query on their own
				long = "T\n| where a > 1\n| where s == '" + strings.Repeat("x", s.LongLineBytes) + "'\n| count"
			}
			s.Stmts = append(s.Stmts, cliStmt{"query", long}, cliStmt{"query", "U | count"})
			s.Seps = append(s.Seps, "\n", "\n")
			kinds += "XQ"
		case 1, 2:
			// long lines below that limit must simply work: a long string, a long
			// in-list and a long comment on one line each
			s.LongLineBytes = 3000 + rapid.IntRange(0, 50000).Draw(rt, "mediumby")
			var items []string
			for i := 0; len(strings.Join(items, ", ")) < s.LongLineBytes; i++ {
				items = append(items, fmt.Sprintf("\"ITEM_%05d\"", i))
			}
			s.Stmts = append(s.Stmts,
				cliStmt{"query", "T | where a == '" + strings.Repeat("y", s.LongLineBytes) + "' | count"},
				cliStmt{"query", "T | where s in (" + strings.Join(items, ", ") + ") | take 1"},
				cliStmt{"query", "U | count // " + strings.Repeat("long remark ; ", s.LongLineBytes/14) + "\n| where k > 1"})
			s.Seps = append(s.Seps, "\n", "\n", "\n")
			kinds += "MMM"
		}
		if s.LongLineBytes > 65000 {
			s.DirAt = nil // one read failure per script
		}
		checkOne := func(sc *cliScript) {
			msg, herr := checkCLI(sc)
			if herr != "" {
				rt.Fatalf("harness error: %s", herr)
			}
			st.Eval()
			if msg != "" {
				st.Violation(rt, "C16", "cli", sc, "%s", msg)
			}
		}
		checkOne(s)
		// metamorphic: terminating the final statement or not makes no difference
		if len(s.Stmts) > 0 && s.LongLineBytes <= 65000 && s.DirAt == nil {
			twin := *s
			twin.FinalSemi = !s.FinalSemi
			if !twin.FinalSemi && strings.Contains(s.Stmts[len(s.Stmts)-1].Text, "//") {
				twin.FinalNewline = true
			}
			checkOne(&twin)
		}
		st.Class("transport:" + s.Transport)
		st.Class(fmt.Sprintf("outfile:%v", s.OutFile))
		st.Class(fmt.Sprintf("crlf:%v", s.CRLF))
		if s.LongLineBytes > 65000 {
			st.Class("line-beyond-64KiB")
		} else if s.LongLineBytes > 0 {
			st.Class("long-lines-below-64KiB")
		}
		if s.StaleOut {
			st.Class("output-file-existed")
		}
		if s.DirAt != nil {
			st.Class("unreadable-input-among-files")
		}
		nt := strings.Contains(kinds, "Q*") || strings.Contains(kinds, "qQ") || strings.Contains(kinds, "lQ") || strings.Contains(kinds, "qL") || (strings.Contains(kinds, "L") && strings.HasSuffix(kinds, "Q*"))
		if nt {
			st.Class("nontrivial")
			st.NonTrivial(kinds + "|" + s.Transport + fmt.Sprint(s.OutFile, s.CRLF, s.FinalSemi))
			st.SampleHashed("script", s.text(), func() any {
				return map[string]any{"kinds": kinds, "transport": s.Transport, "input": trunc(s.text(), 400)}
			})
		}
	})
}

package props

// C04 — literals and names are transmitted as data, never as SQL syntax.

import (
	"encoding/json"
	"fmt"
	"math/big"
	"strings"
	"testing"

	"github.com/runreveal/pql/parser"
	"pgregory.net/rapid"

	"verif/harness/astx"
	"verif/harness/gen"
	"verif/harness/harn"
	"verif/harness/reftok"
	"verif/harness/sqlx"
)

type holeKind int

const (
	holeStr holeKind = iota
	holeQuotedName
	holePlainName
	holeNum
	holeIntNum // number in a row-count position: integer spellings only
)

// hole is a place in a program where a literal or a name sits.
type hole struct {
	kind holeKind
	set  func(value string) // strings: value; names: name; numbers: spelling
	str  *gen.Str           // holeStr: the literal
}

// fixedNames are identifiers that are not holes: built-in constants, join
// side aliases and the names of let bindings (changing them changes scoping,
// i.e. structure).
func collectHoles(p *gen.Program) []hole {
	var hs []hole
	fixed := map[string]bool{"true": true, "false": true, "null": true}
	for _, s := range p.Stmts {
		if l, ok := s.(*gen.Let); ok {
			fixed[l.Name.Name] = true
		}
	}
	identHole := func(id *gen.Ident) {
		if !id.Quoted && (fixed[id.Name] || id.Name == "$left" || id.Name == "$right") {
			return
		}
		if id.Quoted {
			hs = append(hs, hole{kind: holeQuotedName, set: func(v string) { id.Name = v }})
		} else {
			hs = append(hs, hole{kind: holePlainName, set: func(v string) { id.Name = v }})
		}
	}
	var exprHoles func(x gen.Expr, rowCount bool)
	exprHoles = func(x gen.Expr, rowCount bool) {
		switch x := x.(type) {
		case *gen.QIdent:
			for i := range x.Parts {
				identHole(&x.Parts[i])
			}
		case *gen.Str:
			hs = append(hs, hole{kind: holeStr, str: x, set: func(v string) { x.Value = v; x.Raw = "" }})
		case *gen.Num:
			k := holeNum
			if rowCount {
				k = holeIntNum
			}
			hs = append(hs, hole{kind: k, set: func(v string) { x.Text = v }})
		case *gen.Unary:
			exprHoles(x.X, false)
		case *gen.Binary:
			exprHoles(x.X, false)
			exprHoles(x.Y, false)
		case *gen.In:
			exprHoles(x.X, false)
			for _, v := range x.Vals {
				exprHoles(v, false)
			}
		case *gen.Paren:
			exprHoles(x.X, false)
		case *gen.Index:
			exprHoles(x.X, false)
			exprHoles(x.I, false)
		case *gen.Call:
			for _, a := range x.Args {
				exprHoles(a, false)
			}
		}
	}
	var tabHoles func(t *gen.Tabular)
	cols := func(cs []*gen.Col) {
		for _, c := range cs {
			if c.Name != nil {
				identHole(c.Name)
			}
			if c.X != nil {
				exprHoles(c.X, false)
			}
		}
	}
	tabHoles = func(t *gen.Tabular) {
		identHole(&t.Table)
		for _, op := range t.Ops {
			switch op := op.(type) {
			case *gen.Where:
				exprHoles(op.Pred, false)
			case *gen.Project:
				cols(op.Cols)
			case *gen.Extend:
				cols(op.Cols)
			case *gen.Summarize:
				cols(op.Cols)
				cols(op.By)
			case *gen.Sort:
				for _, tm := range op.Terms {
					exprHoles(tm.X, false)
				}
			case *gen.Take:
				exprHoles(op.N, true)
			case *gen.Top:
				exprHoles(op.N, true)
				exprHoles(op.Term.X, false)
			case *gen.As:
				identHole(&op.Name)
			case *gen.Render:
				identHole(&op.Chart)
				for _, pr := range op.Props {
					identHole(&pr.Name)
					switch v := pr.Value.(type) {
					case *gen.Str:
						exprHoles(v, false)
					case *gen.QIdent:
						if len(v.Parts) == 1 {
							identHole(&v.Parts[0])
						}
					}
				}
			case *gen.Join:
				tabHoles(op.Right)
				for _, c := range op.Conds {
					exprHoles(c, false)
				}
			}
		}
	}
	for _, s := range p.Stmts {
		switch s := s.(type) {
		case *gen.Let:
			exprHoles(s.X, false)
		case *gen.Tabular:
			tabHoles(s)
		}
	}
	return hs
}

func copyProgram(p *gen.Program) *gen.Program {
	q, err := gen.UnmarshalProgram(gen.MarshalTree(p))
	if err != nil {
		panic(err)
	}
	return q
}

type fillCase struct {
	Skeleton json.RawMessage `json:"skeleton"`
	// Fill[i] is the hostile content of hole i (Go-quoted: may hold any byte).
	FillQ []string `json:"fill_q"`
	// Spell[i] (optional, string holes): 0 is the value's default spelling;
	// otherwise bit 0 chooses the quote character and the remaining bits the
	// bytes that get a superfluous backslash.
	Spell []uint64 `json:"spell,omitempty"`
	Src   string   `json:"hostile_src"` // informational
}

func baselineFor(i int, k holeKind) string {
	switch k {
	case holeStr:
		return fmt.Sprintf("H%dQ", i)
	case holeQuotedName, holePlainName:
		return fmt.Sprintf("h%dq", i)
	default:
		return fmt.Sprintf("%d", 9000000+i)
	}
}

func unnamedCols(p *gen.Program) []*gen.Col {
	var out []*gen.Col
	for _, s := range p.Stmts {
		t, ok := s.(*gen.Tabular)
		if !ok {
			continue
		}
		var rec func(t *gen.Tabular)
		rec = func(t *gen.Tabular) {
			for _, op := range t.Ops {
				var cs []*gen.Col
				switch op := op.(type) {
				case *gen.Extend:
					cs = op.Cols
				case *gen.Summarize:
					cs = append(append([]*gen.Col{}, op.By...), op.Cols...)
				case *gen.Join:
					rec(op.Right)
				}
				for _, c := range cs {
					if c.Name == nil {
						out = append(out, c)
					}
				}
			}
		}
		rec(t)
	}
	return out
}

func lexBoth(sql string) (std, ch []sqlx.Tok, msg string) {
	std, err := sqlx.Lex(sql, sqlx.Standard)
	if err != nil {
		return nil, nil, fmt.Sprintf("does not lex under standard quoting rules: %v", err)
	}
	ch, err = sqlx.Lex(sql, sqlx.ClickHouse)
	if err != nil {
		return nil, nil, fmt.Sprintf("does not lex under ClickHouse quoting rules: %v", err)
	}
	for _, t := range append(append([]sqlx.Tok{}, std...), ch...) {
		if t.Kind == sqlx.TComment {
			return nil, nil, fmt.Sprintf("contains a comment: %q", t.Text)
		}
	}
	return std, ch, ""
}

func numValueSQL(text string) *big.Rat { return reftok.ParseDecimal(text) }

// checkFill is C04's oracle for one skeleton and one hostile filling.
func checkFill(c *fillCase) (msg string, harnessErr string, info map[string]int) {
	info = map[string]int{}
	skel, err := gen.UnmarshalProgram(c.Skeleton)
	if err != nil {
		return "", "bad skeleton: " + err.Error(), info
	}
	base, host := copyProgram(skel), copyProgram(skel)
	bh, hh := collectHoles(base), collectHoles(host)
	if len(bh) != len(hh) || len(c.FillQ) != len(bh) {
		return "", fmt.Sprintf("hole count mismatch: %d/%d holes, %d fillings", len(bh), len(hh), len(c.FillQ)), info
	}
	hostVal := make([]string, len(bh))
	for i := range bh {
		v, err := unquoteQ(c.FillQ[i])
		if err != nil {
			return "", "bad filling: " + err.Error(), info
		}
		hostVal[i] = v
		if bh[i].kind == holePlainName {
			for _, s := range skel.Stmts {
				if l, ok := s.(*gen.Let); ok && l.Name.Name == v {
					return "", fmt.Sprintf("bad filling: the unquoted name %q is a binding of the program", v), info
				}
			}
		}
		bh[i].set(baselineFor(i, bh[i].kind))
		if bh[i].str != nil {
			// the benign contents are spelled plainly; the hostile ones in the
			// value's default spelling (either quote, superfluous escapes)
			bh[i].str.Raw = gen.QuoteString(bh[i].str.Value, '"')
		}
		hh[i].set(v)
		if hh[i].str != nil && i < len(c.Spell) && c.Spell[i] != 0 {
			q, mask := byte('"'), c.Spell[i]>>1
			if c.Spell[i]&1 == 1 {
				q = '\''
			}
			hh[i].str.Raw = gen.SpellWith(v, q, func(j int) bool { return mask>>(uint(j)%63)&1 == 1 })
		}
	}
	bl, hl := gen.Layout(gen.Print(base), nil), gen.Layout(gen.Print(host), nil)
	c.Src = hl.Src
	// the PQL spelling must carry exactly the intended values (construction check)
	if m := tokensMatch(hl); m != "" {
		if rm := refTokensMatch(hl); rm != "" {
			return "", "the hostile program is not spelled as intended: " + rm, info
		}
		// the language's lexical rules (reference tokenizer) give the intended
		// values, pql's scanner something else: the value written in PQL cannot
		// reach the SQL
		return "the scanner does not read the program's literals and names as the language defines them, so the SQL cannot carry the values written: " + m, "", info
	}
	rb, rh := safeCompile(bl.Src, nil), safeCompile(hl.Src, nil)
	if rb.Hung || rh.Hung || rb.Panic != "" || rh.Panic != "" {
		return "Compile hangs or panics on " + fmt.Sprintf("%+q", hl.Src), "", info
	}
	if rb.Err != nil {
		return "", fmt.Sprintf("baseline filling does not compile: %v (%s)", rb.Err, bl.Src), info
	}
	if rh.Err != nil {
		return fmt.Sprintf("the same program compiles with benign contents but not with these contents: %v", rh.Err), "", info
	}
	bStd, bCH, m := lexBoth(rb.SQL)
	if m != "" {
		return "", "baseline SQL " + m, info
	}
	hStd, hCH, m := lexBoth(rh.SQL)
	if m != "" {
		return "the emitted SQL " + m + "\nsql: " + rh.SQL, "", info
	}
	// expected values of derived names: source slices of unnamed columns
	sliceMap := map[string]string{}
	bu, hu := unnamedCols(base), unnamedCols(host)
	for i := range bu {
		if _, bare := bu[i].X.(*gen.QIdent); bare && len(bu[i].X.(*gen.QIdent).Parts) == 1 {
			continue // named after the identifier itself
		}
		s1, ok1 := bl.Slice(bu[i].X)
		s2, ok2 := hl.Slice(hu[i].X)
		if ok1 && ok2 {
			sliceMap[s1] = s2
		}
	}
	markerIndex := map[string]int{}
	for i := range bh {
		markerIndex[baselineFor(i, bh[i].kind)] = i
	}
	compare := func(bt, ht []sqlx.Tok, decode bool, mode string) string {
		if len(bt) != len(ht) {
			return fmt.Sprintf("token count changes with the contents (%s rules): %d tokens with benign contents, %d with these", mode, len(bt), len(ht))
		}
		for i := range bt {
			b, h := bt[i], ht[i]
			if b.Kind != h.Kind {
				return fmt.Sprintf("token %d changes kind with the contents (%s rules): %q becomes %q", i, mode, b.Text, h.Text)
			}
			isHole := false
			switch b.Kind {
			case sqlx.TString, sqlx.TQIdent:
				for mk := range markerIndex {
					if strings.Contains(b.Val, mk) {
						isHole = true
					}
				}
			case sqlx.TNumber:
				_, isHole = markerIndex[b.Text]
			}
			if !isHole {
				if b.Text != h.Text {
					return fmt.Sprintf("token %d (%q) carries no literal or name of the program but changes to %q with the contents (%s rules)", i, b.Text, h.Text, mode)
				}
				continue
			}
			if !decode {
				continue
			}
			info["hole-tokens"]++
			// what must the hostile token decode to?
			var want string
			switch {
			case b.Kind == sqlx.TNumber:
				hi := markerIndex[b.Text]
				wv, _ := gen.NumValue(hostVal[hi])
				gv := numValueSQL(h.Text)
				if wv == nil || gv == nil || wv.Cmp(gv) != 0 {
					return fmt.Sprintf("number %q reaches the SQL as %q, which is not the same value", hostVal[hi], h.Text)
				}
				continue
			default:
				if hi, exact := markerIndex[b.Val]; exact {
					want = hostVal[hi]
					if bh[hi].kind == holeNum || bh[hi].kind == holeIntNum {
						continue // a number rendered as a string: not asserted
					}
				} else if s2, derived := sliceMap[b.Val]; derived {
					want = s2
					info["derived-name-tokens"]++
				} else {
					// a fixed prefix plus one name (render_prop_<name>)
					want = b.Val
					for mk, hi := range markerIndex {
						want = strings.ReplaceAll(want, mk, hostVal[hi])
					}
				}
			}
			if h.Val != want {
				return fmt.Sprintf("the %s token %q decodes (ClickHouse rules) to %+q, the program wrote %+q", map[sqlx.TKind]string{sqlx.TString: "string", sqlx.TQIdent: "identifier"}[h.Kind], h.Text, h.Val, want)
			}
		}
		return ""
	}
	// render words: a bare word given as a render property value reaches the
	// SQL as exactly that word, whatever else in the program bears the name
	for _, side := range []struct {
		prog *gen.Program
		toks []sqlx.Tok
		sql  string
	}{{base, bCH, rb.SQL}, {host, hCH, rh.SQL}} {
		got := map[string]int{}
		for i := 0; i+2 < len(side.toks); i++ {
			if side.toks[i].Kind == sqlx.TString && side.toks[i+1].Kind == sqlx.TWord && side.toks[i+1].Val == "AS" && side.toks[i+2].Kind == sqlx.TQIdent && strings.HasPrefix(side.toks[i+2].Val, "render_prop_") {
				got[side.toks[i+2].Val+"\x00"+side.toks[i].Val]++
			}
		}
		var miss string
		for _, st := range side.prog.Stmts {
			t, ok := st.(*gen.Tabular)
			if !ok {
				continue
			}
			gen.WalkTabular(t, func(_ *gen.Tabular, op gen.Op) {
				r, ok := op.(*gen.Render)
				if !ok {
					return
				}
				for _, p := range r.Props {
					if q, ok := p.Value.(*gen.QIdent); ok && len(q.Parts) == 1 {
						key := "render_prop_" + p.Name.Name + "\x00" + q.Parts[0].Name
						if got[key] == 0 {
							miss = fmt.Sprintf("the render property %s = %s (a bare word) does not reach the SQL as the string '%s'", p.Name.Name, q.Parts[0].Name, q.Parts[0].Name)
						} else {
							got[key]--
						}
					}
				}
			})
			break // lets after the query do not matter; one tabular statement
		}
		if miss != "" {
			return miss + "\nsql: " + side.sql, "", info
		}
	}
	if m := compare(bStd, hStd, false, "standard"); m != "" {
		return m + "\nsql: " + rh.SQL, "", info
	}
	if m := compare(bCH, hCH, true, "ClickHouse"); m != "" {
		return m + "\nsql: " + rh.SQL, "", info
	}
	return "", "", info
}

func unquoteQ(q string) (string, error) {
	c := strCase{SrcQ: q}
	s := c.get()
	if s == "" && q != `""` {
		return "", fmt.Errorf("cannot unquote %s", q)
	}
	return s, nil
}

func init() {
	replayers["fill"] = func(raw json.RawMessage) string {
		var c fillCase
		if err := json.Unmarshal(raw, &c); err != nil {
			return "bad replay: " + err.Error()
		}
		msg, herr, _ := checkFill(&c)
		if herr != "" {
			return "harness: " + herr
		}
		return msg
	}
}

var hostileAlphabet = []string{"\u2028", "\u00a0", "\u200b", "\ufeff", "\u0085", "\x7f", "\x1b", "'", "\"", "`", "\\", "-", "/", "*", ";", "(", ")", ",", "\x00", "\t", "\n", " ", "é", "\xff", "{", "}", "a", "Z", "0", "9", "_", "$", "=", ".", "%", "|", "\r"}
var hostileConstants = []string{"\\", "\\'", "'--", "*/", "/*", "'; DROP", "x' , (select 1) as y, '", "--", "\\\\", "''", "\"\"", "``", "\\\"", "a\\", "' OR '1'='1", "{p: Int32}", "\\n", "\\x41", "\\0", ")", "\";", "\\u0041", "\\u0027 OR 1=1", "http://h/p;q", "u0041", "xu0027 OR 1=1 --", "x41", "x27;", "0", "b", "r", "U0001F600", "u{41}", "N{DOLLAR SIGN}", "047", "e'"}
var hostileNumbers = []string{"9007199254740993e0", "900719925474099.3e1", "18446744073709551615e0", "1234567890123456789e0", "0x8000000000000000", "0xFFFFFFFFFFFFFFFE", "0x00000000000000001", "0x0ffffffffffffffff", "0X000000000000000000000a", "00e5", "000e-3", "00E0", "0.0e5", "00.5e1", "0e5", "0", "7", "007", "0x1F", "0X0a", ".5", "1.", "1e3", "1.E+2", "1.50", "0.0", "1234567890123456789012345", "1e400", "0e0", "00", "0xffffffffffffffff"}
var hostileInts = []string{"0x00000000000000001", "0x0ffffffffffffffff", "0", "7", "007", "0x1F", "0X0a", "00", "18446744073709551615", "1234567890123456789012345"}
var plainNamePool = []string{"zz", "Col_1", "_x", "a1b2", "T9", "where_", "selectx", "x"}

// dictVariant: a word of the source dictionary in a different letter case
// (names and literals are transmitted as written, whatever they resemble).
func dictVariant(rt *rapid.T) string {
	var words []string
	for _, w := range sourceWords() {
		if len(w) >= 3 && w[0] >= 'a' && w[0] <= 'z' && strings.Trim(w, "abcdefghijklmnopqrstuvwxyz_") == "" {
			words = append(words, w)
		}
	}
	w := rapid.SampledFrom(words).Draw(rt, "dictword")
	switch rapid.IntRange(0, 2).Draw(rt, "dictcase") {
	case 0:
		return strings.ToUpper(w)
	case 1:
		return strings.ToUpper(w[:1]) + w[1:]
	}
	// inner capitals: pieChart-like spellings
	mid := len(w) / 2
	return strings.ToUpper(w[:1]) + w[1:mid] + strings.ToUpper(w[mid:mid+1]) + w[mid+1:]
}

func genContent(rt *rapid.T, allowNewline bool) string {
	if rapid.IntRange(0, 7).Draw(rt, "dictcontent") == 0 {
		return dictVariant(rt)
	}
	if rapid.IntRange(0, 39).Draw(rt, "longcontent") == 0 {
		// lengths around the sizes of small buffers
		n := rapid.SampledFrom([]int{63, 64, 65, 255, 256, 257, 1023, 1024, 1025, 4096, 5000}).Draw(rt, "contentlen")
		unit := rapid.SampledFrom([]string{"a", "é", "'", "\\", "a b", "\"", "`"}).Draw(rt, "contentunit")
		return strings.Repeat(unit, n/len(unit)+1)[:n]
	}
	if rapid.IntRange(0, 3).Draw(rt, "useconst") == 0 {
		return rapid.SampledFrom(hostileConstants).Draw(rt, "const")
	}
	n := rapid.IntRange(0, 12).Draw(rt, "len")
	var sb strings.Builder
	for i := 0; i < n; i++ {
		s := rapid.SampledFrom(hostileAlphabet).Draw(rt, "ch")
		if s == "\n" && !allowNewline {
			s = "\t"
		}
		sb.WriteString(s)
	}
	return sb.String()
}

func swapCase(s string) string {
	b := []byte(s)
	for i, c := range b {
		switch {
		case c >= 'a' && c <= 'z':
			b[i] = c - 32
		case c >= 'A' && c <= 'Z':
			b[i] = c + 32
		}
	}
	return string(b)
}

// plainOK: usable as an unquoted name that is no keyword or constant.
func plainOK(s string) bool {
	if s == "" || !(s[0] == '_' || s[0] >= 'a' && s[0] <= 'z' || s[0] >= 'A' && s[0] <= 'Z') {
		return false
	}
	for i := 0; i < len(s); i++ {
		c := s[i]
		if !(c == '_' || c >= 'a' && c <= 'z' || c >= 'A' && c <= 'Z' || c >= '0' && c <= '9') {
			return false
		}
	}
	switch s {
	case "and", "or", "in", "by", "true", "false", "null", "let":
		return false
	}
	return true
}

func contentClasses(v string) []string {
	var out []string
	add := func(cond bool, c string) {
		if cond {
			out = append(out, c)
		}
	}
	add(strings.ContainsAny(v, "'\"`"), "quote")
	add(strings.Contains(v, "\\"), "backslash")
	add(strings.Contains(v, "--") || strings.Contains(v, "/*") || strings.Contains(v, "*/"), "comment-marker")
	add(strings.Contains(v, ";"), "semicolon")
	add(strings.Contains(v, "\x00"), "nul")
	add(strings.Contains(v, "\n"), "newline")
	add(!isASCII(v), "non-ascii")
	return out
}

func TestC04Fillings(t *testing.T) {
	st := harn.NewStats(env, "fillings")
	defer st.Flush()
	rapid.Check(t, func(rt *rapid.T) {
		g := gen.NewG(rt, gen.Cfg{MaxDepth: 2, MaxOps: 4, JoinDepth: 1, Lets: true, Compilable: true})
		skel := g.Program()
		holes := collectHoles(skel)
		if len(holes) == 0 {
			return
		}
		c := &fillCase{Skeleton: gen.MarshalTree(skel)}
		classSet := map[string]bool{}
		kinds := map[holeKind]int{}
		lastName := ""
		letNamed := map[string]bool{}
		for _, s := range skel.Stmts {
			if l, ok := s.(*gen.Let); ok {
				letNamed[l.Name.Name] = true
			}
		}
		for _, h := range holes {
			var v string
			switch h.kind {
			case holeStr:
				v = genContent(rt, true)
			case holeQuotedName:
				v = genContent(rt, false)
			case holePlainName:
				v = rapid.SampledFrom(plainNamePool).Draw(rt, "plainname")
				if rapid.IntRange(0, 4).Draw(rt, "dictname") == 0 {
					v = dictVariant(rt)
				}
			case holeNum:
				v = rapid.SampledFrom(hostileNumbers).Draw(rt, "num")
			case holeIntNum:
				v = rapid.SampledFrom(hostileInts).Draw(rt, "int")
			}
			if (h.kind == holeQuotedName || h.kind == holePlainName) && lastName != "" && rapid.IntRange(0, 7).Draw(rt, "casetwin") == 0 {
				// the same name in another letter case: a different name
				if sc := swapCase(lastName); sc != lastName && (h.kind == holeQuotedName || plainOK(sc)) {
					v = sc
				}
			}
			if h.kind == holePlainName && (letNamed[v] || v == "true" || v == "false" || v == "null" || v == "$left" || v == "$right") {
				// an unquoted name that happens to be a binding of the program (or
				// a constant) would change what the program means, not just what
				// it is called
				v = "zz"
			}
			if h.kind == holeQuotedName || h.kind == holePlainName {
				lastName = v
			}
			kinds[h.kind]++
			for _, cl := range contentClasses(v) {
				classSet[cl] = true
			}
			c.FillQ = append(c.FillQ, mkStrCase(v).SrcQ)
			var spell uint64
			if h.kind == holeStr {
				switch rapid.IntRange(0, 3).Draw(rt, "spelling") {
				case 0:
					spell = rapid.Uint64().Draw(rt, "escapes")
				case 1:
					spell = ^uint64(0) - uint64(rapid.IntRange(0, 1).Draw(rt, "quotebit")) // a backslash wherever one may go
				}
			}
			c.Spell = append(c.Spell, spell)
		}
		msg, herr, info := checkFill(c)
		if herr != "" {
			rt.Fatalf("harness error: %s", herr)
		}
		st.Eval()
		st.ClassN("holes", int64(len(holes)))
		st.ClassN("hole-tokens-decoded", int64(info["hole-tokens"]))
		st.ClassN("derived-name-tokens", int64(info["derived-name-tokens"]))
		st.ClassN("holes:string", int64(kinds[holeStr]))
		st.ClassN("holes:quoted-name", int64(kinds[holeQuotedName]))
		st.ClassN("holes:plain-name", int64(kinds[holePlainName]))
		st.ClassN("holes:number", int64(kinds[holeNum]+kinds[holeIntNum]))
		var cls []string
		for cl := range classSet {
			st.Class("content:" + cl)
			cls = append(cls, cl)
		}
		if len(classSet) > 0 {
			st.NonTrivial(gen.Shape(skel) + "|" + fmt.Sprint(len(holes)) + "|" + strings.Join(sortedStrings(cls), ","))
			st.SampleHashed("filling", c.Src, func() any { return fmt.Sprintf("%+q", c.Src) })
		}
		if msg != "" {
			st.Violation(rt, "C04", "fill", c, "%+q: %s", c.Src, msg)
		}
	})
}

func sortedStrings(xs []string) []string {
	out := append([]string{}, xs...)
	for i := 1; i < len(out); i++ {
		for j := i; j > 0 && out[j] < out[j-1]; j-- {
			out[j], out[j-1] = out[j-1], out[j]
		}
	}
	return out
}

// fuzzSkeletons are fixed programs whose holes the fuzzer fills with bytes.
var fuzzSkeletons = []string{
	"`T` | where `c` == 's' | project `a` = `b`",
	"`T` | extend `c` + 's' | summarize count() by `k`",
	"`T` | render `chart` with (`p` = 's')",
	"`T` | render `chart` with (`p` = `v`) | as `N`",
	"let v = 's'; `T` | where a == v or b in ('s', 's')",
	"`T` | join (`U` | where x == 's') on `k` | sort by `a`['s'] | take 5",
	"`T` | summarize `n` = countif(a == 's'), max(`m`) by `g` = tolower('s')",
	"`T` | where strcat('s', `a`, 's') =~ 's' | top 3 by `b`",
}

func FuzzC04Fill(f *testing.F) {
	f.Add(uint8(0), "it's", "a\"b", "x\\")
	f.Add(uint8(2), "'; DROP", "x' , (select 1) as y, '", "--")
	f.Add(uint8(5), "\\", "*/", "`")
	st := harn.NewStats(env, "fuzz")
	skeletons := make([]*gen.Program, 0, len(fuzzSkeletons))
	for _, src := range fuzzSkeletons {
		p, err := parseToGen(src)
		if err != nil {
			f.Fatalf("skeleton %q: %v", src, err)
		}
		skeletons = append(skeletons, p)
	}
	f.Fuzz(func(t *testing.T, which uint8, s1, s2, s3 string) {
		if len(s1)+len(s2)+len(s3) > 200 {
			return
		}
		skel := skeletons[int(which)%len(skeletons)]
		holes := collectHoles(copyProgram(skel))
		c := &fillCase{Skeleton: gen.MarshalTree(skel)}
		vals := []string{s1, s2, s3}
		for i, h := range holes {
			v := vals[i%3]
			switch h.kind {
			case holeQuotedName:
				v = strings.ReplaceAll(v, "\n", " ")
			case holePlainName:
				v = "zz"
			case holeNum, holeIntNum:
				v = "7"
			}
			c.FillQ = append(c.FillQ, mkStrCase(v).SrcQ)
		}
		msg, herr, _ := checkFill(c)
		if herr != "" {
			return
		}
		if msg != "" {
			st.Violation(t, "C04", "fill", c, "%+q: %s", c.Src, msg)
		}
	})
}

// parseToGen builds a skeleton program from text (fixed fuzz skeletons only).
func parseToGen(src string) (*gen.Program, error) {
	stmts, err := parser.Parse(src)
	if err != nil {
		return nil, err
	}
	return astx.ToGen(stmts)
}

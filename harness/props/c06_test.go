package props

// C06 — let bindings and parameters are substituted by the documented scoping rules.

import (
	"fmt"
	"strings"
	"testing"

	"github.com/runreveal/pql"
	"pgregory.net/rapid"

	"verif/harness/gen"
	"verif/harness/harn"
	"verif/harness/prim"
	"verif/harness/sqlx"
)

type bindSpec struct {
	name string
	t    gen.Type
}

var bindTypes = []gen.Type{gen.TInt, gen.TInt, gen.TStr, gen.TBool}

func typeName(t gen.Type) string {
	switch t {
	case gen.TInt:
		return "Int32"
	case gen.TStr:
		return "String"
	}
	return "Bool"
}

func genValueOfType(rt *rapid.T, t gen.Type) any {
	switch t {
	case gen.TInt:
		return rapid.IntRange(-2, 4).Draw(rt, "pint")
	case gen.TStr:
		return rapid.SampledFrom([]string{"x", "X", "y", ""}).Draw(rt, "pstr")
	}
	return rapid.Bool().Draw(rt, "pbool")
}

// letValue draws a closed constant expression of type t over the bindings in
// scope (shape classes: literal, signed, compound, reference, chain).
func letValue(rt *rapid.T, g *gen.G, t gen.Type, scope []bindSpec) (gen.Expr, string) {
	var refs []bindSpec
	for _, b := range scope {
		if b.t == t {
			refs = append(refs, b)
		}
	}
	k := rapid.IntRange(0, 6).Draw(rt, "letshape")
	if k >= 5 && len(refs) > 0 {
		b := refs[rapid.IntRange(0, len(refs)-1).Draw(rt, "letref")]
		if t == gen.TInt && k == 6 {
			return &gen.Binary{Op: rapid.SampledFrom([]string{"+", "-", "*"}).Draw(rt, "letop"), X: gen.ID(b.name), Y: &gen.Num{Text: "1"}}, "compound-over-reference"
		}
		if rapid.IntRange(0, 3).Draw(rt, "refparen") == 0 {
			return &gen.Paren{X: gen.ID(b.name)}, "reference-parenthesised"
		}
		return gen.ID(b.name), "reference"
	}
	switch t {
	case gen.TInt:
		n := &gen.Num{Text: fmt.Sprint(rapid.IntRange(0, 4).Draw(rt, "letint"))}
		switch k {
		case 0:
			return n, "literal"
		case 1:
			return &gen.Unary{Op: "-", X: n}, "signed"
		case 2:
			return &gen.Binary{Op: rapid.SampledFrom([]string{"+", "-", "*"}).Draw(rt, "letop"), X: n, Y: &gen.Num{Text: "2"}}, "compound"
		case 3:
			return &gen.Paren{X: &gen.Unary{Op: "-", X: n}}, "signed-parenthesised"
		default:
			// an explicitly parenthesised compound value, and built-ins whose
			// SQL is an infix / CASE expression
			switch rapid.IntRange(0, 2).Draw(rt, "letwrapped") {
			case 0:
				return &gen.Paren{X: &gen.Binary{Op: rapid.SampledFrom([]string{"+", "-", "*"}).Draw(rt, "letop"), X: n, Y: &gen.Num{Text: "2"}}}, "compound-parenthesised"
			case 1:
				return &gen.Paren{X: &gen.Paren{X: &gen.Binary{Op: "-", X: n, Y: &gen.Num{Text: "3"}}}}, "compound-parenthesised"
			default:
				return &gen.Call{Func: "iff", Args: []gen.Expr{&gen.Binary{Op: "<", X: n, Y: &gen.Num{Text: "2"}}, n, &gen.Num{Text: "7"}}}, "built-in-call"
			}
		}
	case gen.TStr:
		return g.SpellStr(rapid.SampledFrom([]string{"x", "X", "y", ""}).Draw(rt, "letstr")), "literal"
	}
	if k%2 == 0 {
		return gen.ID(rapid.SampledFrom([]string{"true", "false"}).Draw(rt, "letbool")), "literal"
	}
	return &gen.Binary{Op: "==", X: &gen.Num{Text: "1"}, Y: &gen.Num{Text: fmt.Sprint(rapid.IntRange(0, 1).Draw(rt, "cmp"))}}, "compound"
}

// usedParams computes which parameters reach the query through substituted
// uses (directly or through chains of lets).
func usedParams(prog *gen.Program, params map[string]paramVal) map[string]bool {
	type def struct {
		isParam bool
		name    string
		deps    []*def
	}
	cur := map[string]*def{}
	for name := range params {
		cur[name] = &def{isParam: true, name: name}
	}
	depsOf := func(x gen.Expr) []*def {
		var out []*def
		gen.WalkExpr(x, func(e gen.Expr) {
			if q, ok := e.(*gen.QIdent); ok && len(q.Parts) == 1 && !q.Parts[0].Quoted {
				if d, ok := cur[q.Parts[0].Name]; ok {
					out = append(out, d)
				}
			}
		})
		return out
	}
	var roots []*def
	done := false
	for _, s := range prog.Stmts {
		switch s := s.(type) {
		case *gen.Let:
			if done {
				continue
			}
			cur[s.Name.Name] = &def{name: s.Name.Name, deps: depsOf(s.X)}
		case *gen.Tabular:
			if done {
				continue
			}
			done = true
			var walk func(t *gen.Tabular)
			walk = func(t *gen.Tabular) {
				for _, op := range t.Ops {
					for _, x := range gen.ExprsOfOp(op) {
						if _, isRender := op.(*gen.Render); isRender {
							continue
						}
						roots = append(roots, depsOf(x)...)
					}
					if p, ok := op.(*gen.Project); ok {
						for _, c := range p.Cols {
							if c.X == nil && !c.Name.Quoted {
								if d, ok := cur[c.Name.Name]; ok {
									roots = append(roots, d)
								}
							}
						}
					}
					if j, ok := op.(*gen.Join); ok {
						walk(j.Right)
					}
				}
			}
			walk(s)
		}
	}
	used := map[string]bool{}
	seen := map[*def]bool{}
	var visit func(d *def)
	visit = func(d *def) {
		if seen[d] {
			return
		}
		seen[d] = true
		if d.isParam {
			used[d.name] = true
		}
		for _, x := range d.deps {
			visit(x)
		}
	}
	for _, r := range roots {
		visit(r)
	}
	return used
}

// odderSnippets are parameter values no evaluating oracle can read; they
// must still be inserted verbatim.
var odderSnippets = []string{"", " ", " 42 ", "$1", "?", "{p:UInt32}", "(select 1)", "a' --", "x\x00y", "\"q\"", "$left", "NULL"}

func compileWith(src string, params map[string]paramVal) (string, error) {
	var opts *pql.CompileOptions
	if len(params) > 0 {
		opts = &pql.CompileOptions{Parameters: map[string]string{}}
		for n, p := range params {
			opts.Parameters[n] = p.Snippet
		}
	}
	r := safeCompile(src, opts)
	if r.Hung || r.Panic != "" || r.Inconcl {
		return "", fmt.Errorf("hang/panic: %s", firstLines(r.Panic, 3))
	}
	return r.SQL, r.Err
}

// checkBindings is C06's oracle: semantic comparison plus the metamorphic
// (unused bindings change nothing) and textual (verbatim snippets) parts.
func checkBindings(c *evalCase) (msg string, info evalInfo) {
	msg, info = checkEval(c)
	if msg != "" || info.HarnessError != "" {
		return msg, info
	}
	prog, _ := c.program()
	src := gen.Source(prog)
	sql, err := compileWith(src, c.Params)
	if err != nil {
		return "", info // checkEval reported compile problems already
	}
	// textual: a parameter's snippet occurs verbatim iff the parameter is used
	used := usedParams(prog, c.Params)
	for name, p := range c.Params {
		has := strings.Contains(sql, p.Snippet)
		if used[name] && !has {
			return fmt.Sprintf("parameter %q is used by the query but its snippet %s does not occur verbatim in the SQL\nsql: %s", name, p.Snippet, sql), info
		}
		if !used[name] && has {
			return fmt.Sprintf("parameter %q is not used in any substituted role, yet its snippet %s occurs in the SQL\nsql: %s", name, p.Snippet, sql), info
		}
	}
	// verbatim, whatever the snippet is: compiling with a marker and replacing
	// the marker gives the same text as compiling with the snippet itself
	const marker = "__PQL_SNIPPET_MARK_7f3a__"
	for name := range c.Params {
		if !used[name] {
			continue
		}
		withSnippet := func(v string) (string, error) {
			ps := map[string]paramVal{}
			for n, p := range c.Params {
				if n == name {
					p.Snippet = v
				}
				ps[n] = p
			}
			return compileWith(src, ps)
		}
		sqlM, errM := withSnippet(marker)
		if errM != nil {
			return fmt.Sprintf("the program compiles with parameter %q = %s but not with another snippet: %v", name, c.Params[name].Snippet, errM), info
		}
		for _, v := range odderSnippets {
			sqlV, errV := withSnippet(v)
			if errV != nil {
				return fmt.Sprintf("the program compiles with parameter %q = %s but not with the snippet %q: %v", name, c.Params[name].Snippet, v, errV), info
			}
			if want := strings.ReplaceAll(sqlM, marker, v); sqlV != want {
				return fmt.Sprintf("parameter %q is not inserted verbatim: with the snippet %q the SQL is\n %s\nbut the SQL compiled with a marker, marker replaced, is\n %s", name, v, sqlV, want), info
			}
		}
		break // one parameter per case keeps the cost down
	}
	// metamorphic: unused bindings, and lets after the query, change nothing
	extra := &gen.Program{}
	extra.Stmts = append(extra.Stmts, &gen.Let{Name: gen.Ident{Name: "zz_unused_let"}, X: &gen.Num{Text: "41"}})
	extra.Stmts = append(extra.Stmts, prog.Stmts...)
	extra.Stmts = append(extra.Stmts, &gen.Let{Name: gen.Ident{Name: "k"}, X: &gen.Unary{Op: "-", X: &gen.Num{Text: "7"}}}, &gen.Let{Name: gen.Ident{Name: "a1"}, X: &gen.Str{Value: "late"}},
		// lets after the query may build on each other like any others
		&gen.Let{Name: gen.Ident{Name: "zz_late1"}, X: &gen.Num{Text: "1"}}, &gen.Let{Name: gen.Ident{Name: "zz_late2"}, X: &gen.Binary{Op: "+", X: gen.ID("zz_late1"), Y: &gen.Num{Text: "1"}}})
	params2 := map[string]paramVal{"zz_unused_param": {Snippet: "{zz_unused_param: UInt8}", Value: 1},
		// names no single identifier can spell: they can never be used
		"$left.k": {Snippet: "41", Value: 41}, "$right.k": {Snippet: "42", Value: 42}, "A.k": {Snippet: "43", Value: 43}, "k.k": {Snippet: "44", Value: 44}, "a1.": {Snippet: "45", Value: 45}, "n1 ": {Snippet: "46", Value: 46}}
	extra.Stmts = append([]gen.Stmt{
		&gen.Let{Name: gen.Ident{Name: "$left.a1", Quoted: true}, X: &gen.Num{Text: "47"}},
		&gen.Let{Name: gen.Ident{Name: "B.k", Quoted: true}, X: &gen.Num{Text: "48"}},
	}, extra.Stmts...)
	for n, p := range c.Params {
		params2[n] = p
	}
	sql2, err2 := compileWith(gen.Source(extra), params2)
	if err2 != nil {
		return fmt.Sprintf("adding an unused let, an unused parameter and lets after the query makes compilation fail: %v", err2), info
	}
	if sql2 != sql {
		return fmt.Sprintf("adding an unused let, an unused parameter and lets after the query changes the SQL\n before: %s\n after:  %s", sql, sql2), info
	}
	return "", info
}

func init() {
	replayers["bindings"] = jsonReplayer(func(c evalCase) string {
		msg, info := checkBindings(&c)
		if info.HarnessError != "" {
			return "harness: " + info.HarnessError
		}
		return msg
	})
}

type signedParamCase struct {
	Snippet string `json:"snippet"`       // SQL text of the parameter
	PQL     string `json:"pql,omitempty"` // the same value written in PQL (default: the snippet)
	Use     string `json:"use"`           // an expression over the name p
}

// checkSignedParam: a parameter whose snippet starts with a sign (or is any
// other compound text) acts as one operand: the SQL expression has the value
// of the same expression with the snippet written in parentheses.
func checkSignedParam(c signedParamCase) string {
	src := "T | project out = " + c.Use
	r := safeCompile(src, &pql.CompileOptions{Parameters: map[string]string{"p": c.Snippet}})
	if r.Hung || r.Panic != "" {
		return "Compile hangs or panics"
	}
	if r.Err != nil {
		return fmt.Sprintf("does not compile: %v", r.Err)
	}
	pqlText := c.PQL
	if pqlText == "" {
		pqlText = c.Snippet
	}
	want := safeCompile("T | project out = "+strings.ReplaceAll(c.Use, "p", "("+pqlText+")"), nil)
	if want.Err != nil {
		return "" // the snippet is no PQL expression: nothing to compare with
	}
	eval := func(sql string) (prim.Value, string) {
		st, err := sqlx.ParseStatement(sql, sqlx.ClickHouse)
		if err != nil {
			return nil, fmt.Sprintf("emitted SQL is not valid: %v", err)
		}
		x, why := extractSQLExpr("project", st)
		if why != "" {
			return nil, why
		}
		v, err := sqlx.EvalScalarFn(x, func(parts []string) (prim.Value, bool) { return int64(7), true }, nil)
		if err != nil {
			return nil, "cannot be evaluated: " + err.Error()
		}
		return v, ""
	}
	got, m1 := eval(r.SQL)
	if m1 != "" {
		return m1 + "\nsql: " + r.SQL
	}
	exp, m2 := eval(want.SQL)
	if m2 != "" {
		return ""
	}
	if !prim.Equal(got, exp) {
		return fmt.Sprintf("the parameter does not act as one operand: with p = %s the expression %s has the value %s, written out as (%s) it has %s\nsql: %s\nsql written out: %s", c.Snippet, c.Use, prim.Show(got), c.Snippet, prim.Show(exp), r.SQL, want.SQL)
	}
	return ""
}

func init() {
	replayers["signedparam"] = jsonReplayer(checkSignedParam)
}

// TestC06SignedParams: sign-led and compound snippets in every operand position.
func TestC06SignedParams(t *testing.T) {
	st := harn.NewStats(env, "signedparams")
	defer st.Flush()
	// sign-led snippets only: a compound snippet such as `1 + 2` is inserted
	// verbatim and it is the caller's business to parenthesise it
	snippets := [][2]string{{"-5", ""}, {"+3", ""}, {"- 2", ""}, {"-(1 + 2)", ""}, {"- -4", ""}, {"-\"a\"", "-a"}, {"+\"a\"", "+a"}, {"-16", "-0x10"}, {"-(\"a\")", "-(a)"}}
	uses := []string{"p[1]", "-p", "+p", "10 - p", "p - 10", "p * 2", "2 * p", "-p[1]", "p == -5", "f(p)[1]", "p in (p, 1)", "iff(true, p, 0) - p", "strcat('a', p)", "not(p == 1)", "(p)[1]", "p % 3", "10 / p"}
	st.SetExhaustive(fmt.Sprintf("every parameter snippet of %q in every use of %q, compared by value with the use written out with the snippet in parentheses", snippets, uses))
	i := 0
	for _, sn := range snippets {
		for _, u := range uses {
			i++
			if i%env.NShards != env.Shard {
				continue
			}
			c := signedParamCase{Snippet: sn[0], PQL: sn[1], Use: u}
			st.Eval()
			st.NonTrivialExact(1)
			if msg := checkSignedParam(c); msg != "" {
				st.Violation(t, "C06", "signedparam", c, "p = %s in %s: %s", sn[0], u, msg)
				return
			}
		}
	}
}

type manyUsesCase struct {
	Kind string `json:"kind"`
	Uses int    `json:"uses"`
}

// checkManyUses: a binding used n times in one flat query denotes its value
// every time; the SQL equals that of the query with the value written out.
func checkManyUses(c manyUsesCase) string {
	n := c.Uses
	list := func(item string, n int) string { return strings.TrimSuffix(strings.Repeat(item+", ", n), ", ") }
	var src string
	var opts *pql.CompileOptions
	var want callResult
	switch c.Kind {
	case "let":
		src = "let n = 1; T | where x in (" + list("n", n) + ") | take n"
		want = safeCompile("T | where x in ("+list("1", n)+") | take 1", nil)
	case "parameter":
		src = "T | where x in (" + list("p", n) + ")"
		opts = &pql.CompileOptions{Parameters: map[string]string{"p": "{p: Int32}"}}
		want = safeCompile("T | where x in ("+list("zz_col", n)+")", nil)
		want.SQL = strings.ReplaceAll(want.SQL, "\"zz_col\"", "{p: Int32}")
	default:
		src = "let n = 2; T | where a > n | extend s = strcat(" + list("n", n/2+1) + ") | where b in (" + list("n", n/2+1) + ") | take n"
		want = safeCompile("T | where a > 2 | extend s = strcat("+list("2", n/2+1)+") | where b in ("+list("2", n/2+1)+") | take 2", nil)
	}
	r := safeCompile(src, opts)
	switch {
	case r.Hung || r.Panic != "":
		return "Compile hangs or panics"
	case r.Err != nil:
		return fmt.Sprintf("does not compile: %v", r.Err)
	case want.Err == nil && r.SQL != want.SQL:
		return fmt.Sprintf("the SQL differs from that of the query with the value written out (first difference at byte %d of %d)", firstDiff(r.SQL, want.SQL), len(want.SQL))
	}
	return ""
}

func init() {
	replayers["manyuses"] = jsonReplayer(checkManyUses)
}

// TestC06ManyUses: a binding used hundreds to tens of thousands of times.
func TestC06ManyUses(t *testing.T) {
	st := harn.NewStats(env, "manyuses")
	defer st.Flush()
	sizes := []int{255, 256, 257, 4096, 65535, 65536, 65537, 70000}
	if env.Thorough() {
		sizes = append(sizes, 131073, 300000)
	}
	st.SetExhaustive(fmt.Sprintf("a let, a parameter and a let spread over several operators, each used n times for n in %v, compared with the same query with the value written out", sizes))
	for i, n := range sizes {
		if i%env.NShards != env.Shard {
			continue
		}
		for _, kind := range []string{"let", "parameter", "spread"} {
			c := manyUsesCase{Kind: kind, Uses: n}
			st.Eval()
			st.NonTrivialExact(1)
			st.Class(kind)
			if msg := checkManyUses(c); msg != "" {
				st.Violation(t, "C06", "manyuses", c, "a %s used %d times in one query: %s", kind, n, msg)
				return
			}
		}
	}
}

func firstDiff(a, b string) int {
	for i := 0; i < len(a) && i < len(b); i++ {
		if a[i] != b[i] {
			return i
		}
	}
	return min(len(a), len(b))
}

func TestC06Bindings(t *testing.T) {
	st := harn.NewStats(env, "bindings")
	defer st.Flush()
	rapid.Check(t, func(rt *rapid.T) {
		g := gen.NewG(rt, gen.Cfg{})
		// --- parameters
		params := map[string]paramVal{}
		var scope []bindSpec
		classes := map[string]bool{}
		for i, n := 0, rapid.IntRange(0, 3).Draw(rt, "nparams"); i < n; i++ {
			name := rapid.SampledFrom([]string{"p1", "p2", "lim", "v", "k", "a1", "true"}).Draw(rt, "pname")
			if _, dup := params[name]; dup {
				continue
			}
			ty := rapid.SampledFrom(bindTypes).Draw(rt, "ptype")
			if name == "true" {
				ty = gen.TBool
			}
			params[name] = paramVal{Snippet: fmt.Sprintf("{%s_%d: %s}", strings.ReplaceAll(name, "$", ""), i, typeName(ty)), Value: genValueOfType(rt, ty)}
			scope = append(scope, bindSpec{name, ty})
			if name == "k" || name == "a1" {
				classes["parameter-named-like-a-column"] = true
			}
			if name == "true" {
				classes["parameter-named-like-a-builtin-constant"] = true
			}
		}
		// --- lets before the query
		prog := &gen.Program{}
		final := map[string]gen.Type{}
		for _, b := range scope {
			final[b.name] = b.t
		}
		nlets := rapid.IntRange(0, 5).Draw(rt, "nlets")
		if rapid.IntRange(0, 14).Draw(rt, "manylets") == 0 {
			nlets = rapid.IntRange(8, 16).Draw(rt, "manyletsn")
		}
		for i, n := 0, nlets; i < n; i++ {
			name := rapid.SampledFrom([]string{"n", "lim", "v", "w", "p1", "k", "m"}).Draw(rt, "letname")
			ty := rapid.SampledFrom(bindTypes).Draw(rt, "lettype")
			x, shape := letValue(rt, g, ty, scope)
			classes["let-value:"+shape] = true
			if _, shadow := final[name]; shadow {
				if _, isParam := params[name]; isParam {
					classes["let-shadows-parameter"] = true
				} else {
					classes["let-redefined"] = true
				}
			}
			if name == "k" {
				classes["let-named-like-a-column"] = true
			}
			// the name may be written in backticks where it is defined: it binds all the same
			prog.Stmts = append(prog.Stmts, &gen.Let{Name: gen.Ident{Name: name, Quoted: rapid.IntRange(0, 5).Draw(rt, "quotedletname") == 0}, X: x})
			// later lets see this one
			var ns []bindSpec
			for _, b := range scope {
				if b.name != name {
					ns = append(ns, b)
				}
			}
			scope = append(ns, bindSpec{name, ty})
			final[name] = ty
		}
		// the same value text before and after the name it mentions is rebound:
		// `let a = N + 1; let N = 3; let b = N + 1`
		if rapid.IntRange(0, 7).Draw(rt, "sametext") == 0 {
			var ints []bindSpec
			for _, b := range scope {
				if b.t == gen.TInt {
					ints = append(ints, b)
				}
			}
			if len(ints) > 0 {
				nb := ints[rapid.IntRange(0, len(ints)-1).Draw(rt, "sametextname")]
				op := rapid.SampledFrom([]string{"+", "-", "*"}).Draw(rt, "sametextop")
				val := func() gen.Expr { return &gen.Binary{Op: op, X: gen.ID(nb.name), Y: &gen.Num{Text: "1"}} }
				add := func(name string, x gen.Expr) {
					prog.Stmts = append(prog.Stmts, &gen.Let{Name: gen.Ident{Name: name}, X: x})
					var ns []bindSpec
					for _, b := range scope {
						if b.name != name {
							ns = append(ns, b)
						}
					}
					scope = append(ns, bindSpec{name, gen.TInt})
					final[name] = gen.TInt
				}
				add("v", val())
				add(nb.name, &gen.Num{Text: fmt.Sprint(rapid.IntRange(2, 4).Draw(rt, "rebound"))})
				add("w", val())
				classes["same-value-text-around-a-rebinding"] = true
			}
		}
		// --- the query: a well-typed pipeline that uses the bindings
		tenv := &gen.TEnv{Base: gen.StdSchemas, JoinTables: []string{"B", "C"}, UseBindings: 2, Uses: map[string]int{}, ForceQuote: map[string]bool{}}
		for name, ty := range final {
			tenv.Bindings = append(tenv.Bindings, gen.Binding{Name: name, T: ty})
			tenv.ForceQuote[name] = true
		}
		// deterministic order of bindings (map iteration must not steer generation)
		for i := 1; i < len(tenv.Bindings); i++ {
			for j := i; j > 0 && tenv.Bindings[j].Name < tenv.Bindings[j-1].Name; j-- {
				tenv.Bindings[j], tenv.Bindings[j-1] = tenv.Bindings[j-1], tenv.Bindings[j]
			}
		}
		db := gen.GenDB(rt, gen.StdSchemas, []string{"A", "B", "C"})
		q := &gen.Tabular{Table: gen.ColIdent("A")}
		s := gen.StdSchemas["A"]
		// colliding non-uses: an alias / `as` name that is spelled like a binding
		if len(tenv.Bindings) > 0 && rapid.IntRange(0, 2).Draw(rt, "aliascollision") == 0 {
			b := tenv.Bindings[rapid.IntRange(0, len(tenv.Bindings)-1).Draw(rt, "aliasof")]
			exists := false
			for _, c := range s {
				if c.Name == b.Name {
					exists = true
				}
			}
			if !exists && b.Name != "true" {
				id := gen.Ident{Name: b.Name}
				q.Ops = append(q.Ops, &gen.Extend{Cols: []*gen.Col{{Name: &id, X: gen.ColRef("a1")}}})
				s = append(append(gen.Schema{}, s...), gen.TCol{Name: b.Name, T: gen.TInt})
				classes["alias-spelled-like-a-binding"] = true
			}
		}
		if len(tenv.Bindings) > 0 && rapid.IntRange(0, 3).Draw(rt, "ascollision") == 0 {
			b := tenv.Bindings[rapid.IntRange(0, len(tenv.Bindings)-1).Draw(rt, "asof")]
			if b.Name != "true" {
				q.Ops = append(q.Ops, &gen.As{Name: gen.Ident{Name: b.Name}})
				classes["as-name-spelled-like-a-binding"] = true
			}
		}
		// the shorthand `project name`: a name-only project column is the
		// expression `name`, so an unquoted binding name denotes the binding
		if len(tenv.Bindings) > 0 && rapid.IntRange(0, 3).Draw(rt, "projectbinding") == 0 {
			b := tenv.Bindings[rapid.IntRange(0, len(tenv.Bindings)-1).Draw(rt, "projof")]
			shadowsCol := false
			for _, c := range s {
				if c.Name == b.Name {
					shadowsCol = true
				}
			}
			if b.Name != "true" {
				id := gen.Ident{Name: b.Name}
				kid := tenv.ForceQuote["k"]
				kcol := gen.Ident{Name: "k", Quoted: kid}
				hasK := false
				for _, c := range s {
					if c.Name == "k" && !c.Unusable {
						hasK = true
					}
				}
				if hasK && b.Name != "k" {
					q.Ops = append(q.Ops, &gen.Project{Cols: []*gen.Col{{Name: &id}, {Name: &kcol}}})
					s = gen.Schema{{Name: b.Name, T: b.T}, {Name: "k", T: gen.TInt}}
					tenv.Uses["project-shorthand"]++
					classes["project-shorthand-of-a-binding"] = true
					_ = shadowsCol
				}
			}
		}
		for i, n := 0, rapid.IntRange(1, 5).Draw(rt, "nops"); i < n; i++ {
			kind := rapid.SampledFrom(gen.OpKinds).Draw(rt, "kind")
			if kind == "as" {
				kind = "where"
			}
			op, ns, ok := g.TypedOp(kind, s, tenv, 2)
			if !ok {
				continue
			}
			q.Ops = append(q.Ops, op)
			s = ns
		}
		prog.Stmts = append(prog.Stmts, q)
		if rapid.IntRange(0, 3).Draw(rt, "letafter") == 0 {
			prog.Stmts = append(prog.Stmts, &gen.Let{Name: gen.Ident{Name: "n"}, X: &gen.Num{Text: "99"}})
			classes["let-after-query"] = true
		}
		c := mkEvalCase(prog, db, params)
		msg, info := checkBindings(c)
		if info.HarnessError != "" {
			rt.Fatalf("harness error on %s: %s", c.Src, info.HarnessError)
		}
		st.Eval()
		nuses := 0
		for pos, n := range tenv.Uses {
			st.ClassN("use-in:"+pos, int64(n))
			nuses += n
			if pos == "join" || pos == "rowcount" {
				classes["use-in-join-or-row-count"] = true
			}
		}
		for cl := range classes {
			st.Class(cl)
		}
		if info.Skipped != "" {
			st.Class("skipped:" + strings.SplitN(info.Skipped, ":", 2)[0])
			return
		}
		interesting := classes["let-shadows-parameter"] || classes["let-redefined"] || classes["let-value:reference"] || classes["let-value:compound-over-reference"] ||
			classes["let-value:signed"] || classes["let-value:compound"] || classes["let-value:compound-parenthesised"] || classes["let-value:built-in-call"] || classes["use-in-join-or-row-count"] || classes["alias-spelled-like-a-binding"] || classes["as-name-spelled-like-a-binding"] || classes["project-shorthand-of-a-binding"]
		if nuses > 0 && interesting {
			st.NonTrivial(gen.Shape(prog))
			st.SampleHashed("program", c.Src, func() any { return map[string]any{"pql": c.Src, "params": c.Params, "sql": info.SQL} })
		}
		if msg != "" {
			st.Violation(rt, "C06", "bindings", c, "%s\nparams: %v\n%s", c.Src, c.Params, msg)
		}
	})
}

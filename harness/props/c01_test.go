package props

// C01 — scalar expressions keep their meaning when translated to SQL.

import (
	"encoding/json"
	"fmt"
	"strings"
	"testing"

	"pgregory.net/rapid"

	"verif/harness/gen"
	"verif/harness/harn"
	"verif/harness/interp"
	"verif/harness/prim"
	"verif/harness/sqlx"
)

// exprPositions are the expression positions of C01.
var exprPositions = []string{"where", "project", "extend", "extend-unnamed", "summarize", "summarize-by", "sort", "take", "top-count", "top-by", "join", "let", "let-operand-minus", "let-operand-neg", "let-alias-minus", "let-alias-eq", "let-beside-quoted-column"}

// letUse: the positions in which the expression is a let value that is used
// (directly or through a second let that only renames it) as an operand.
func letUse(pos string, v gen.Expr) gen.Expr {
	switch pos {
	case "let-operand-minus", "let-alias-minus":
		return &gen.Binary{Op: "-", X: &gen.Num{Text: "100"}, Y: v}
	case "let-operand-neg":
		// a sign directly before the name: the value may itself start with one
		return &gen.Unary{Op: "-", X: v}
	case "let-alias-eq":
		return &gen.Binary{Op: "==", X: v, Y: &gen.Num{Text: "1"}}
	case "let-beside-quoted-column":
		// a quoted name is a column even when a binding has the same name
		return &gen.Binary{Op: "-", X: &gen.QIdent{Parts: []gen.Ident{{Name: "v", Quoted: true}}}, Y: v}
	}
	return nil
}

type posCase struct {
	Pos  string          `json:"position"`
	Tree json.RawMessage `json:"expr"`
	Src  string          `json:"src"` // informational

	x gen.Expr
}

func (c *posCase) expr() (gen.Expr, error) {
	if c.x != nil {
		return c.x, nil
	}
	x, err := gen.UnmarshalExpr(c.Tree)
	c.x = x
	return x, err
}

// programFor places the expression into its position: exactly one tabular
// operator holds it, so the SQL clause with its translation is unambiguous.
func programFor(pos string, x gen.Expr) *gen.Program {
	t := &gen.Tabular{Table: gen.Ident{Name: "T"}}
	name := &gen.Ident{Name: "out"}
	switch pos {
	case "where":
		t.Ops = []gen.Op{&gen.Where{Pred: x}}
	case "project":
		t.Ops = []gen.Op{&gen.Project{Cols: []*gen.Col{{Name: name, X: x}}}}
	case "extend":
		t.Ops = []gen.Op{&gen.Extend{Cols: []*gen.Col{{Name: name, X: x}}}}
	case "extend-unnamed":
		t.Ops = []gen.Op{&gen.Extend{Cols: []*gen.Col{{X: x}}}}
	case "summarize":
		t.Ops = []gen.Op{&gen.Summarize{Cols: []*gen.Col{{Name: name, X: x}}}}
	case "summarize-by":
		t.Ops = []gen.Op{&gen.Summarize{Cols: []*gen.Col{{Name: &gen.Ident{Name: "n"}, X: &gen.Call{Func: "count"}}}, By: []*gen.Col{{Name: name, X: x}}}}
	case "sort":
		t.Ops = []gen.Op{&gen.Sort{Terms: []*gen.Term{{X: x}}}}
	case "take":
		t.Ops = []gen.Op{&gen.Take{N: x}}
	case "top-count":
		t.Ops = []gen.Op{&gen.Top{N: x, Term: &gen.Term{X: gen.ID("k")}}}
	case "top-by":
		t.Ops = []gen.Op{&gen.Top{N: &gen.Num{Text: "3"}, Term: &gen.Term{X: x}}}
	case "join":
		t.Ops = []gen.Op{&gen.Join{Right: &gen.Tabular{Table: gen.Ident{Name: "U"}}, Conds: []gen.Expr{x}}}
	case "let":
		return &gen.Program{Stmts: []gen.Stmt{&gen.Let{Name: gen.Ident{Name: "v"}, X: x}, &gen.Tabular{Table: gen.Ident{Name: "T"}, Ops: []gen.Op{&gen.Where{Pred: gen.ID("v")}}}}}
	case "let-operand-minus", "let-operand-neg", "let-beside-quoted-column":
		t.Ops = []gen.Op{&gen.Project{Cols: []*gen.Col{{Name: name, X: letUse(pos, gen.ID("v"))}}}}
		return &gen.Program{Stmts: []gen.Stmt{&gen.Let{Name: gen.Ident{Name: "v"}, X: x}, t}}
	case "let-alias-minus", "let-alias-eq":
		t.Ops = []gen.Op{&gen.Project{Cols: []*gen.Col{{Name: name, X: letUse(pos, gen.ID("w"))}}}}
		return &gen.Program{Stmts: []gen.Stmt{&gen.Let{Name: gen.Ident{Name: "v"}, X: x}, &gen.Let{Name: gen.Ident{Name: "w"}, X: gen.ID("v")}, t}}
	default:
		panic("unknown position " + pos)
	}
	return &gen.Program{Stmts: []gen.Stmt{t}}
}

// extractSQLExpr picks the translation of the expression out of the statement.
func extractSQLExpr(pos string, st *sqlx.Stmt) (sqlx.Expr, string) {
	if len(st.CTEs) != 0 && pos != "join" {
		return nil, fmt.Sprintf("expected a single SELECT for position %s, got %d CTEs", pos, len(st.CTEs))
	}
	s := st.Sel
	need := func(ok bool, what string) string {
		if !ok {
			return "the emitted SELECT has no " + what
		}
		return ""
	}
	switch pos {
	case "where", "let":
		return s.Where, need(s.Where != nil, "WHERE clause")
	case "project", "summarize", "let-operand-minus", "let-operand-neg", "let-alias-minus", "let-alias-eq", "let-beside-quoted-column":
		if len(s.Items) != 1 || s.Items[0].Star {
			return nil, fmt.Sprintf("expected one select item, got %d", len(s.Items))
		}
		return s.Items[0].E, ""
	case "extend", "extend-unnamed":
		if len(s.Items) != 2 || !s.Items[0].Star || s.Items[1].Star {
			return nil, fmt.Sprintf("expected `*, expr`, got %d items", len(s.Items))
		}
		return s.Items[1].E, ""
	case "summarize-by":
		if len(s.Items) != 2 || len(s.GroupBy) != 1 {
			return nil, fmt.Sprintf("expected key and aggregate and one GROUP BY term, got %d items, %d terms", len(s.Items), len(s.GroupBy))
		}
		// the key must be listed first and repeated in GROUP BY
		if sqlx.ExprString(s.Items[0].E) != sqlx.ExprString(s.GroupBy[0]) {
			return nil, fmt.Sprintf("group key in the select list (%s) and in GROUP BY (%s) differ", sqlx.ExprString(s.Items[0].E), sqlx.ExprString(s.GroupBy[0]))
		}
		return s.Items[0].E, ""
	case "sort", "top-by":
		if len(s.OrderBy) != 1 {
			return nil, fmt.Sprintf("expected one ORDER BY term, got %d", len(s.OrderBy))
		}
		return s.OrderBy[0].E, ""
	case "take", "top-count":
		return s.Limit, need(s.Limit != nil, "LIMIT clause")
	case "join":
		if len(s.Joins) != 1 {
			return nil, fmt.Sprintf("expected one JOIN, got %d", len(s.Joins))
		}
		return s.Joins[0].On, ""
	}
	return nil, "unknown position"
}

var valuePool = []prim.Value{nil, int64(0), int64(1), int64(-1), int64(2), int64(7), "", "a", "A", "b", "7", "1"}

// identKeys lists the distinct column references of an expression (not the
// built-in constants), in order of appearance.
func identKeys(x gen.Expr) []string {
	var keys []string
	seen := map[string]bool{}
	gen.WalkExpr(x, func(e gen.Expr) {
		q, ok := e.(*gen.QIdent)
		if !ok {
			return
		}
		if len(q.Parts) == 1 && !q.Parts[0].Quoted {
			switch q.Parts[0].Name {
			case "true", "false", "null":
				return
			}
		}
		k := interp.IdentKey(q)
		if !seen[k] {
			seen[k] = true
			keys = append(keys, k)
		}
	})
	return keys
}

// valuations: the all-NULL row, one row per single NULL column, and a fixed
// combinatorial pattern over the value pool.
func valuations(n int, extra int) [][]prim.Value {
	var rows [][]prim.Value
	rows = append(rows, make([]prim.Value, n))
	for i := 0; i < n && i < 6; i++ {
		r := make([]prim.Value, n)
		for j := range r {
			r[j] = valuePool[1+(i+2*j)%(len(valuePool)-1)]
		}
		r[i] = nil
		rows = append(rows, r)
	}
	for i := 0; i < extra; i++ {
		r := make([]prim.Value, n)
		for j := range r {
			r[j] = valuePool[(i*7+j*3+i/5+i*j)%len(valuePool)]
		}
		rows = append(rows, r)
	}
	return rows
}

type exprInfo struct {
	SQL      string
	Rows     int
	DontCare int
	Harness  string
}

// checkExprMeaning is C01's oracle for one expression in one position.
func checkExprMeaning(c *posCase) (msg string, info exprInfo) {
	x, err := c.expr()
	if err != nil {
		info.Harness = "bad case: " + err.Error()
		return "", info
	}
	prog := programFor(c.Pos, x)
	src := gen.Source(prog)
	r := safeCompile(src, nil)
	switch {
	case r.Hung:
		return "Compile does not return", info
	case r.Inconcl:
		info.Harness = "no verdict from Compile"
		return "", info
	case r.Panic != "":
		return "Compile panics: " + firstLines(r.Panic, 8), info
	case r.Err != nil:
		return fmt.Sprintf("grammar expression does not compile: %v", r.Err), info
	}
	info.SQL = r.SQL
	st, err := sqlx.ParseStatement(r.SQL, sqlx.ClickHouse)
	if err != nil {
		return fmt.Sprintf("emitted SQL is not valid: %v\nsql: %s", err, r.SQL), info
	}
	sx, why := extractSQLExpr(c.Pos, st)
	if why != "" {
		return fmt.Sprintf("%s\nsql: %s", why, r.SQL), info
	}
	if u := letUse(c.Pos, &gen.Paren{X: x}); u != nil {
		x = u // the value the use site must compute
	}
	keys := identKeys(x)
	index := map[string]int{}
	for i, k := range keys {
		index[k] = i
	}
	for _, row := range valuations(len(keys), 24) {
		row := row
		lookup := func(key string) (prim.Value, bool) {
			i, ok := index[key]
			if !ok {
				return nil, false
			}
			return row[i], true
		}
		info.Rows++
		want, werr := evalGenExpr(x, lookup)
		if werr != nil {
			info.Harness = "reference evaluation: " + werr.Error()
			return "", info
		}
		if prim.IsPoison(want) {
			info.DontCare++
			continue
		}
		got, gerr := sqlx.EvalScalarFn(sx, func(parts []string) (prim.Value, bool) { return lookup(strings.Join(parts, "\x00")) }, nil)
		if gerr != nil {
			return fmt.Sprintf("the emitted SQL expression cannot be evaluated: %v\nsql: %s", gerr, r.SQL), info
		}
		if prim.IsPoison(got) {
			info.DontCare++
			continue
		}
		equal := prim.Equal(want, got)
		if c.Pos == "join" || c.Pos == "where" || c.Pos == "let" {
			// a predicate position: only whether the row is kept matters
			equal = equal || prim.IsTrue(want) == prim.IsTrue(got) && boolish(want) && boolish(got)
		}
		if !equal {
			return fmt.Sprintf("value differs on row %s: PQL grouping gives %s, the SQL read with SQL precedence gives %s\n sql expression: %s\nsql: %s",
				showValuation(keys, row), prim.Show(want), prim.Show(got), sqlx.ExprString(sx), r.SQL), info
		}
	}
	return "", info
}

// boolish: NULL, a boolean or 0/1 — the values for which "is the row kept"
// is the whole meaning in a predicate position.
func boolish(v prim.Value) bool {
	switch v := v.(type) {
	case nil, bool:
		return true
	case int64:
		return v == 0 || v == 1
	}
	return false
}

func showValuation(keys []string, row []prim.Value) string {
	var sb strings.Builder
	sb.WriteString("{")
	for i, k := range keys {
		if i > 0 {
			sb.WriteString(", ")
		}
		fmt.Fprintf(&sb, "%s=%s", strings.ReplaceAll(k, "\x00", "."), prim.Show(row[i]))
	}
	sb.WriteString("}")
	return sb.String()
}

func evalGenExpr(x gen.Expr, lookup func(string) (prim.Value, bool)) (v prim.Value, err error) {
	defer func() {
		if r := recover(); r != nil {
			if e, ok := r.(*interp.Error); ok {
				err = e
				return
			}
			panic(r)
		}
	}()
	e := &interp.Env{Lookup: lookup, Group: [][]prim.Value{nil}}
	return interp.Eval(x, e), nil
}

func init() {
	replayers["exprmeaning"] = func(raw json.RawMessage) string {
		var c posCase
		if err := json.Unmarshal(raw, &c); err != nil {
			return "bad replay: " + err.Error()
		}
		msg, info := checkExprMeaning(&c)
		if info.Harness != "" {
			return "harness: " + info.Harness
		}
		return msg
	}
}

func exprShapeInteresting(x gen.Expr) bool {
	nops, paren := 0, false
	gen.WalkExpr(x, func(e gen.Expr) {
		switch e.(type) {
		case *gen.Binary, *gen.In, *gen.Unary, *gen.Index, *gen.Call:
			nops++
		case *gen.Paren:
			paren = true
		}
	})
	return nops >= 2 || paren
}

func runExprCase(st *harn.Stats, rt harn.Failer, pos string, x gen.Expr) {
	c := &posCase{Pos: pos, Tree: gen.MarshalTree(x), x: x}
	c.Src = gen.Source(programFor(pos, x))
	msg, info := checkExprMeaning(c)
	if info.Harness != "" {
		rt.Fatalf("harness error on %s: %s", c.Src, info.Harness)
	}
	st.Eval()
	st.Class("position:" + pos)
	st.ClassN("rows-evaluated", int64(info.Rows))
	st.ClassN("rows-dont-care", int64(info.DontCare))
	if exprShapeInteresting(x) {
		st.NonTrivial(pos + "|" + gen.Canon(x))
		st.SampleHashed(pos, c.Src, func() any { return map[string]string{"pql": c.Src, "sql": info.SQL} })
	}
	if msg != "" {
		st.Violation(rt, "C01", "exprmeaning", c, "%s\n%s", c.Src, msg)
	}
}

// joinSafe rewrites an expression for the join position: `==` between the two
// sides only as a top-level AND-ed condition (there pql deliberately emits a
// plain `=`); everything else refers to one side only.
func genJoinCond(g *gen.G, depth int) gen.Expr {
	factor := func() gen.Expr {
		if rapid.IntRange(0, 2).Draw(g.T, "crosseq") == 0 {
			return &gen.Binary{Op: "==", X: &gen.QIdent{Parts: []gen.Ident{{Name: "$left"}, g.Ident()}}, Y: &gen.QIdent{Parts: []gen.Ident{{Name: "$right"}, g.Ident()}}}
		}
		x := g.Expr(depth, gen.ECtx{})
		if rapid.IntRange(0, 1).Draw(g.T, "mixsides") == 0 {
			// qualify every column reference with one side
			return qualify(x, rapid.SampledFrom([]string{"$left", "$right"}).Draw(g.T, "side"))
		}
		// both sides may occur anywhere, except that `==` never spans them
		// (only `==` across the sides is rewritten to a plain `=`)
		return noCrossEq(g, qualifyMixed(g, x))
	}
	x := factor()
	for i, n := 0, rapid.IntRange(0, 2).Draw(g.T, "nfactors"); i < n; i++ {
		y := factor()
		x = &gen.Binary{Op: "and", X: parenIf(x, gen.NeedsParenLeft("and", x)), Y: parenIf(y, gen.NeedsParenRight("and", y))}
	}
	return x
}

// qualifyMixed qualifies every column reference with a side drawn per leaf.
func qualifyMixed(g *gen.G, x gen.Expr) gen.Expr {
	switch x := x.(type) {
	case *gen.QIdent:
		return qualify(x, rapid.SampledFrom([]string{"$left", "$right"}).Draw(g.T, "leafside"))
	case *gen.Unary:
		return &gen.Unary{Op: x.Op, X: qualifyMixed(g, x.X)}
	case *gen.Binary:
		l := qualifyMixed(g, x.X)
		return &gen.Binary{Op: x.Op, X: l, Y: qualifyMixed(g, x.Y)}
	case *gen.In:
		out := &gen.In{X: qualifyMixed(g, x.X)}
		for _, v := range x.Vals {
			out.Vals = append(out.Vals, qualifyMixed(g, v))
		}
		return out
	case *gen.Paren:
		return &gen.Paren{X: qualifyMixed(g, x.X)}
	case *gen.Index:
		b := qualifyMixed(g, x.X)
		return &gen.Index{X: b, I: qualifyMixed(g, x.I)}
	case *gen.Call:
		out := &gen.Call{Func: x.Func, TrailingComma: x.TrailingComma}
		for _, a := range x.Args {
			out.Args = append(out.Args, qualifyMixed(g, a))
		}
		return out
	}
	return x
}

func mentionsSides(x gen.Expr) (left, right bool) {
	gen.WalkExpr(x, func(e gen.Expr) {
		if q, ok := e.(*gen.QIdent); ok && len(q.Parts) > 1 && !q.Parts[0].Quoted {
			switch q.Parts[0].Name {
			case "$left":
				left = true
			case "$right":
				right = true
			}
		}
	})
	return
}

// noCrossEq turns every `==` whose operands together mention both sides into
// another comparison operator.
func noCrossEq(g *gen.G, x gen.Expr) gen.Expr {
	switch x := x.(type) {
	case *gen.Unary:
		return &gen.Unary{Op: x.Op, X: noCrossEq(g, x.X)}
	case *gen.Binary:
		l, r := noCrossEq(g, x.X), noCrossEq(g, x.Y)
		op := x.Op
		if op == "==" {
			ll, lr := mentionsSides(l)
			rl, rr := mentionsSides(r)
			if (ll || rl) && (lr || rr) {
				op = rapid.SampledFrom([]string{"!=", "<", ">=", "=~", "!~"}).Draw(g.T, "crossop")
			}
		}
		return &gen.Binary{Op: op, X: l, Y: r}
	case *gen.In:
		out := &gen.In{X: noCrossEq(g, x.X)}
		for _, v := range x.Vals {
			out.Vals = append(out.Vals, noCrossEq(g, v))
		}
		return out
	case *gen.Paren:
		return &gen.Paren{X: noCrossEq(g, x.X)}
	case *gen.Index:
		return &gen.Index{X: noCrossEq(g, x.X), I: noCrossEq(g, x.I)}
	case *gen.Call:
		out := &gen.Call{Func: x.Func, TrailingComma: x.TrailingComma}
		for _, a := range x.Args {
			out.Args = append(out.Args, noCrossEq(g, a))
		}
		return out
	}
	return x
}

func parenIf(x gen.Expr, need bool) gen.Expr {
	if need {
		return &gen.Paren{X: x}
	}
	return x
}

func qualify(x gen.Expr, side string) gen.Expr {
	switch x := x.(type) {
	case *gen.QIdent:
		if len(x.Parts) == 1 && !x.Parts[0].Quoted {
			switch x.Parts[0].Name {
			case "true", "false", "null":
				return x
			}
		}
		col := x.Parts[len(x.Parts)-1]
		// now and then a column that is itself called like a join alias (the
		// choice is a function of the original name, so that it replays)
		if h := len(col.Name)*7 + len(col.Name+"x")*int((col.Name + "x")[0]); h%6 == 0 {
			col = []gen.Ident{{Name: "$right", Quoted: true}, {Name: "$left", Quoted: true}, {Name: "$right"}, {Name: "$left"}}[h/6%4]
		}
		return &gen.QIdent{Parts: []gen.Ident{{Name: side}, col}}
	case *gen.Unary:
		return &gen.Unary{Op: x.Op, X: qualify(x.X, side)}
	case *gen.Binary:
		return &gen.Binary{Op: x.Op, X: qualify(x.X, side), Y: qualify(x.Y, side)}
	case *gen.In:
		out := &gen.In{X: qualify(x.X, side)}
		for _, v := range x.Vals {
			out.Vals = append(out.Vals, qualify(v, side))
		}
		return out
	case *gen.Paren:
		return &gen.Paren{X: qualify(x.X, side)}
	case *gen.Index:
		return &gen.Index{X: qualify(x.X, side), I: qualify(x.I, side)}
	case *gen.Call:
		out := &gen.Call{Func: x.Func, TrailingComma: x.TrailingComma}
		for _, a := range x.Args {
			out.Args = append(out.Args, qualify(a, side))
		}
		return out
	}
	return x
}

func TestC01Random(t *testing.T) {
	st := harn.NewStats(env, "random")
	defer st.Flush()
	maxDepth := env.Pick(5, 8)
	rapid.Check(t, func(rt *rapid.T) {
		g := gen.NewG(rt, gen.Cfg{MaxDepth: maxDepth, Compilable: true})
		pos := rapid.SampledFrom(exprPositions).Draw(rt, "position")
		depth := 1 + rapid.IntRange(0, maxDepth-1).Draw(rt, "exprdepth")
		var x gen.Expr
		switch pos {
		case "join":
			x = genJoinCond(g, min(depth, 3))
		case "let", "let-operand-minus", "let-operand-neg", "let-alias-minus", "let-alias-eq", "let-beside-quoted-column":
			x = g.Expr(min(depth, 4), gen.ECtx{Let: true})
		case "summarize":
			x = g.Expr(depth, gen.ECtx{Agg: true})
		case "take", "top-count":
			x = g.Expr(depth, gen.ECtx{})
			switch x.(type) {
			case *gen.Num, *gen.Str:
				x = &gen.Paren{X: x} // a bare non-integer literal row count is a documented error (C13)
			}
		default:
			x = g.Expr(depth, gen.ECtx{})
		}
		runExprCase(st, rt, pos, x)
		// metamorphic: extra redundant parentheses change nothing
		if rapid.IntRange(0, 2).Draw(rt, "reparen") == 0 && pos != "take" && pos != "top-count" {
			runExprCase(st, rt, pos, &gen.Paren{X: &gen.Paren{X: x}})
		}
	})
}

// ---- bounded-exhaustive part ----

type ctor struct {
	name  string
	arity int
	build func(args []gen.Expr) gen.Expr
}

func exhaustiveCtors() []ctor {
	var cs []ctor
	for _, op := range gen.BinaryOps {
		op := op
		cs = append(cs, ctor{op, 2, func(a []gen.Expr) gen.Expr { return &gen.Binary{Op: op, X: a[0], Y: a[1]} }})
	}
	cs = append(cs,
		ctor{"in", 2, func(a []gen.Expr) gen.Expr { return &gen.In{X: a[0], Vals: []gen.Expr{a[1]}} }},
		ctor{"index", 2, func(a []gen.Expr) gen.Expr { return &gen.Index{X: a[0], I: a[1]} }},
		ctor{"neg", 1, func(a []gen.Expr) gen.Expr { return &gen.Unary{Op: "-", X: a[0]} }},
		ctor{"pos", 1, func(a []gen.Expr) gen.Expr { return &gen.Unary{Op: "+", X: a[0]} }},
	)
	for _, f := range []string{"not", "isnull", "isnotnull", "tolower", "toupper"} {
		f := f
		cs = append(cs, ctor{f, 1, func(a []gen.Expr) gen.Expr { return &gen.Call{Func: f, Args: []gen.Expr{a[0]}} }})
	}
	cs = append(cs,
		ctor{"strcat", 2, func(a []gen.Expr) gen.Expr { return &gen.Call{Func: "strcat", Args: []gen.Expr{a[0], a[1]}} }},
		ctor{"f", 2, func(a []gen.Expr) gen.Expr { return &gen.Call{Func: "f", Args: []gen.Expr{a[0], a[1]}} }},
		ctor{"iff", 3, func(a []gen.Expr) gen.Expr { return &gen.Call{Func: "iff", Args: []gen.Expr{a[0], a[1], a[2]}} }},
	)
	return cs
}

// enumTrees calls f for every tree with exactly n operator nodes; leaves are
// numbered in order of appearance by the caller.
func enumTrees(n int, cs []ctor, f func(gen.Expr)) {
	if n == 0 {
		f(nil) // placeholder for a leaf
		return
	}
	for _, c := range cs {
		c := c
		// distribute n-1 operator nodes over c.arity children
		var rec func(child, left int, args []gen.Expr)
		rec = func(child, left int, args []gen.Expr) {
			if child == c.arity {
				if left == 0 {
					f(c.build(append([]gen.Expr{}, args...)))
				}
				return
			}
			for k := 0; k <= left; k++ {
				enumTrees(k, cs, func(sub gen.Expr) {
					rec(child+1, left-k, append(args, sub))
				})
			}
		}
		rec(0, n-1, nil)
	}
}

// fillLeaves replaces nil leaves by a, b, c, ... in order of appearance.
func fillLeaves(x gen.Expr, next *int) gen.Expr {
	return fillLeavesMode(x, next, "ident")
}

// leafModes: what the leaves of an enumerated tree are.
var leafModes = []string{"ident", "str", "num", "ident-str", "str-ident", "same-str", "ident-num", "num-ident", "bignum"}

func fillLeavesMode(x gen.Expr, next *int, mode string) gen.Expr {
	leaf := func() gen.Expr {
		i := *next
		*next++
		id := gen.ID(string(rune('a' + i%6)))
		str := &gen.Str{Value: fmt.Sprintf("s%d-", i)}
		switch mode {
		case "str":
			return str
		case "same-str":
			return &gen.Str{Value: "x"}
		case "num":
			return &gen.Num{Text: fmt.Sprint(i + 1)}
		case "bignum":
			// beyond 2^53: exact in integer arithmetic, not in float64
			return &gen.Num{Text: []string{"9007199254740992", "1", "9007199254740993", "4503599627370497", "2", "0x20000000000001"}[i%6]}
		case "ident-str":
			if i%2 == 1 {
				return str
			}
		case "str-ident":
			if i%2 == 0 {
				return str
			}
		case "ident-num":
			if i%2 == 1 {
				return &gen.Num{Text: fmt.Sprint(i + 1)}
			}
		case "num-ident":
			if i%2 == 0 {
				return &gen.Num{Text: fmt.Sprint(100 + i)}
			}
		}
		return id
	}
	if x == nil {
		return leaf()
	}
	switch x := x.(type) {
	case *gen.Binary:
		l := fillLeavesMode(x.X, next, mode)
		return &gen.Binary{Op: x.Op, X: l, Y: fillLeavesMode(x.Y, next, mode)}
	case *gen.Unary:
		return &gen.Unary{Op: x.Op, X: fillLeavesMode(x.X, next, mode)}
	case *gen.In:
		l := fillLeavesMode(x.X, next, mode)
		return &gen.In{X: l, Vals: []gen.Expr{fillLeavesMode(x.Vals[0], next, mode)}}
	case *gen.Index:
		l := fillLeavesMode(x.X, next, mode)
		return &gen.Index{X: l, I: fillLeavesMode(x.I, next, mode)}
	case *gen.Call:
		out := &gen.Call{Func: x.Func}
		for _, a := range x.Args {
			out.Args = append(out.Args, fillLeavesMode(a, next, mode))
		}
		return out
	}
	return x
}

// parenthesize inserts the parentheses the grammar needs (all=false) or
// parentheses around every operand (all=true).
func parenthesize(x gen.Expr, all bool) gen.Expr {
	wrap := func(y gen.Expr, need bool) gen.Expr {
		if need || all {
			return &gen.Paren{X: y}
		}
		return y
	}
	switch x := x.(type) {
	case *gen.Binary:
		l, r := parenthesize(x.X, all), parenthesize(x.Y, all)
		return &gen.Binary{Op: x.Op, X: wrap(l, gen.NeedsParenLeft(x.Op, l)), Y: wrap(r, gen.NeedsParenRight(x.Op, r))}
	case *gen.Unary:
		in := parenthesize(x.X, all)
		return &gen.Unary{Op: x.Op, X: wrap(in, !gen.IsPrimary(in))}
	case *gen.In:
		l := parenthesize(x.X, all)
		return &gen.In{X: wrap(l, gen.NeedsParenLeft("in", l)), Vals: []gen.Expr{parenthesize(x.Vals[0], all)}}
	case *gen.Index:
		b := parenthesize(x.X, all)
		return &gen.Index{X: wrap(b, !gen.IsInnerPrimary(b)), I: parenthesize(x.I, all)}
	case *gen.Call:
		out := &gen.Call{Func: x.Func}
		for _, a := range x.Args {
			out.Args = append(out.Args, parenthesize(a, all))
		}
		return out
	}
	return x
}

// TestC01Positions: every small tree in every position that takes a plain
// expression, with identifiers, string literals, numbers and mixtures as leaves.
func TestC01Positions(t *testing.T) {
	st := harn.NewStats(env, "positions")
	defer st.Flush()
	maxNodes := 2
	cs := exhaustiveCtors()
	positions := []string{"project", "extend", "extend-unnamed", "summarize-by", "sort", "top-by", "where", "let", "let-operand-minus", "let-operand-neg", "let-alias-minus", "let-alias-eq", "let-beside-quoted-column"}
	st.SetExhaustive(fmt.Sprintf("all expression trees with <= %d operator nodes over %d constructors, leaves %q, in the positions %q (let: constant leaves only), with the parentheses the grammar needs and with every operand parenthesised", maxNodes, len(cs), leafModes, positions))
	idx := 0
	failed := false
	for n := 1; n <= maxNodes && !failed; n++ {
		enumTrees(n, cs, func(shape gen.Expr) {
			if failed {
				return
			}
			idx++
			if idx%env.NShards != env.Shard {
				return
			}
			for _, mode := range leafModes {
				for _, pos := range positions {
					if pos == "where" && mode == "ident" {
						continue // TestC01Exhaustive
					}
					if strings.HasPrefix(pos, "let") && mode != "str" && mode != "num" && mode != "same-str" && mode != "bignum" {
						continue
					}
					for _, all := range []bool{false, true} {
						next := 0
						x := parenthesize(fillLeavesMode(shape, &next, mode), all)
						c := &posCase{Pos: pos, Tree: gen.MarshalTree(x), x: x}
						msg, info := checkExprMeaning(c)
						if info.Harness != "" {
							t.Fatalf("harness error on %s in %s: %s", gen.ExprSource(x), pos, info.Harness)
						}
						st.Eval()
						st.NonTrivialExact(1)
						st.Class("position:" + pos)
						st.Class("leaves:" + mode)
						st.SampleHashed(pos+"/"+mode, gen.Canon(x), func() any { return map[string]string{"pql": gen.Source(programFor(pos, x)), "sql": info.SQL} })
						if msg != "" {
							failed = true
							c.Src = gen.Source(programFor(pos, x))
							st.Violation(t, "C01", "exprmeaning", c, "%s\n%s", c.Src, msg)
							return
						}
					}
				}
			}
		})
	}
}

func TestC01Exhaustive(t *testing.T) {
	st := harn.NewStats(env, "exhaustive")
	defer st.Flush()
	maxNodes := 3
	cs := exhaustiveCtors()
	st.SetExhaustive(fmt.Sprintf("all expression trees with <= %d operator nodes over %d constructors (15 binary operators, in, index, two signs, not/isnull/isnotnull/tolower/toupper/strcat/iff, one pass-through function), leaves a, b, c, ... in order, in the where position, once with the parentheses the grammar needs and once with every operand parenthesised", maxNodes, len(cs)))
	idx := 0
	failed := false
	type pass struct {
		n  int
		cs []ctor
	}
	var passes []pass
	for n := 1; n <= maxNodes; n++ {
		passes = append(passes, pass{n, cs})
	}
	if env.Thorough() {
		// four operator nodes over one representative per precedence level
		// plus the constructors with special parenthesisation
		keep := map[string]bool{"or": true, "and": true, "==": true, "<": true, "=~": true, "+": true, "-": true, "*": true, "in": true, "index": true, "neg": true, "not": true}
		var small []ctor
		for _, c := range cs {
			if keep[c.name] {
				small = append(small, c)
			}
		}
		passes = append(passes, pass{4, small})
		st.Note("thorough: additionally all trees with exactly 4 operator nodes over the %d constructors or and == < =~ + - * in index neg not", len(small))
	}
	for _, ps := range passes {
		if failed {
			break
		}
		n := ps.n
		enumTrees(n, ps.cs, func(shape gen.Expr) {
			if failed {
				return
			}
			idx++
			if idx%env.NShards != env.Shard {
				return
			}
			next := 0
			tree := fillLeaves(shape, &next)
			for _, all := range []bool{false, true} {
				x := parenthesize(tree, all)
				c := &posCase{Pos: "where", Tree: gen.MarshalTree(x), x: x}
				msg, info := checkExprMeaning(c)
				if info.Harness != "" {
					t.Fatalf("harness error on %s: %s", gen.ExprSource(x), info.Harness)
				}
				st.Eval()
				if n >= 2 || all {
					st.NonTrivialExact(1)
					st.SampleHashed("tree", gen.Canon(x), func() any { return map[string]string{"pql": gen.ExprSource(x), "sql": info.SQL} })
				}
				st.ClassN("rows-evaluated", int64(info.Rows))
				st.ClassN("rows-dont-care", int64(info.DontCare))
				if msg != "" {
					failed = true
					c.Src = gen.Source(programFor("where", x))
					st.Violation(t, "C01", "exprmeaning", c, "%s\n%s", c.Src, msg)
					return
				}
			}
		})
	}
}

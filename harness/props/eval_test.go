package props

// Shared machinery of the evaluating checks (C02, C03, C06): compile a
// well-typed generated program, read the SQL with the independent front end,
// evaluate it over small tables and compare with the reference interpreter.

import (
	"encoding/json"
	"fmt"
	"sort"
	"strings"

	"github.com/runreveal/pql"

	"verif/harness/gen"
	"verif/harness/interp"
	"verif/harness/prim"
	"verif/harness/sqlx"
)

type paramVal struct {
	Snippet string `json:"snippet"`
	Value   any    `json:"value"` // nil, number (int), string, bool
}

type evalCase struct {
	Src    string                    `json:"src"` // informational: the printed program
	Tree   json.RawMessage           `json:"tree"`
	DB     map[string]*gen.TableData `json:"db"`
	Params map[string]paramVal       `json:"params,omitempty"`

	prog *gen.Program
}

func normJSONValue(v any) prim.Value {
	switch v := v.(type) {
	case float64:
		return int64(v)
	case int:
		return int64(v)
	}
	return v
}

func (c *evalCase) program() (*gen.Program, error) {
	if c.prog != nil {
		return c.prog, nil
	}
	p, err := gen.UnmarshalProgram(c.Tree)
	if err != nil {
		return nil, err
	}
	c.prog = p
	// JSON turns int64 into float64
	for _, t := range c.DB {
		for _, r := range t.Rows {
			for i := range r {
				r[i] = normJSONValue(r[i])
			}
		}
	}
	return p, nil
}

func mkEvalCase(prog *gen.Program, db map[string]*gen.TableData, params map[string]paramVal) *evalCase {
	return &evalCase{Src: gen.Source(prog), Tree: gen.MarshalTree(prog), DB: db, Params: params, prog: prog}
}

type evalInfo struct {
	SQL          string
	Skipped      string // non-empty: the case says nothing (don't-care value, ...)
	TieTolerant  bool
	Readings     int
	ResultRows   int
	OrderChecked bool
	HarnessError string
}

// orderInfo: does a sort determine the final row order of the query, and can
// its keys still be computed on the output?
func orderInfo(t *gen.Tabular) (ordered bool, terms []*gen.Term) {
	for _, op := range t.Ops {
		switch op := op.(type) {
		case *gen.Sort:
			ordered, terms = true, op.Terms
		case *gen.Top:
			ordered, terms = true, []*gen.Term{op.Term}
		case *gen.Summarize, *gen.Count, *gen.Join:
			ordered, terms = false, nil
		case *gen.Project:
			terms = nil // keys may have been renamed away
		}
	}
	return
}

func rowsKeys(rows [][]prim.Value) []string {
	out := make([]string, len(rows))
	for i, r := range rows {
		out[i] = prim.Key(r)
	}
	return out
}

func sameMultiset(a, b []string) bool {
	if len(a) != len(b) {
		return false
	}
	x, y := append([]string{}, a...), append([]string{}, b...)
	sort.Strings(x)
	sort.Strings(y)
	for i := range x {
		if x[i] != y[i] {
			return false
		}
	}
	return true
}

func showRows(cols []string, rows [][]prim.Value) string {
	var sb strings.Builder
	fmt.Fprintf(&sb, "%q", cols)
	for _, r := range rows {
		sb.WriteString(" [")
		for i, v := range r {
			if i > 0 {
				sb.WriteString(" ")
			}
			sb.WriteString(prim.Show(v))
		}
		sb.WriteString("]")
	}
	return sb.String()
}

// sortedBy reports whether rows (over cols) are in an order consistent with
// the sort terms (ties in any order).
func sortedBy(cols []string, rows [][]prim.Value, terms []*gen.Term, scope interp.Scope) (ok bool) {
	defer func() {
		if r := recover(); r != nil {
			ok = false
		}
	}()
	key := func(r []prim.Value) []prim.Value {
		var k []prim.Value
		for _, t := range terms {
			k = append(k, interp.Eval(t.X, &interp.Env{Cols: cols, Row: r, Scope: scope}))
		}
		return k
	}
	for i := 1; i < len(rows); i++ {
		a, b := key(rows[i-1]), key(rows[i])
		for ti, t := range terms {
			asc, nf := t.Resolved()
			x, y := a[ti], b[ti]
			if x == nil || y == nil {
				if x == nil && y == nil {
					continue
				}
				if (x == nil) == nf {
					break // a before b: fine
				}
				return false
			}
			c, _ := prim.Cmp(x, y)
			if c == 0 {
				continue
			}
			if (c < 0) == asc {
				break
			}
			return false
		}
	}
	return true
}

// buildScope evaluates the let statements before the query, in order, on top
// of the parameter values.
func buildScope(prog *gen.Program, params map[string]paramVal) (interp.Scope, *gen.Tabular, error) {
	scope := interp.Scope{}
	for name, p := range params {
		scope[name] = normJSONValue(p.Value)
	}
	var query *gen.Tabular
	for _, s := range prog.Stmts {
		switch s := s.(type) {
		case *gen.Tabular:
			if query == nil {
				query = s
			}
		case *gen.Let:
			if query != nil {
				continue // lets after the query have no effect
			}
			v, err := evalClosed(s.X, scope)
			if err != nil {
				return nil, nil, err
			}
			scope[s.Name.Name] = v
		}
	}
	if query == nil {
		return nil, nil, fmt.Errorf("program without a query")
	}
	return scope, query, nil
}

func evalClosed(x gen.Expr, scope interp.Scope) (v prim.Value, err error) {
	defer func() {
		if r := recover(); r != nil {
			if e, ok := r.(*interp.Error); ok {
				err = e
				return
			}
			panic(r)
		}
	}()
	return interp.Eval(x, &interp.Env{Scope: scope}), nil
}

// checkEval is the oracle of the evaluating checks.
func checkEval(c *evalCase) (msg string, info evalInfo) {
	prog, err := c.program()
	if err != nil {
		info.HarnessError = "bad case: " + err.Error()
		return "", info
	}
	src := gen.Source(prog)
	var opts *pql.CompileOptions
	sqlParams := map[string]prim.Value{}
	if len(c.Params) > 0 {
		opts = &pql.CompileOptions{Parameters: map[string]string{}}
		for name, p := range c.Params {
			opts.Parameters[name] = p.Snippet
			sqlParams[p.Snippet] = normJSONValue(p.Value)
		}
	}
	r := safeCompile(src, opts)
	switch {
	case r.Hung:
		return "Compile does not return", info
	case r.Inconcl:
		info.HarnessError = "no verdict from Compile within the wall-clock limit"
		return "", info
	case r.Panic != "":
		return "Compile panics: " + firstLines(r.Panic, 8), info
	case r.Err != nil:
		return fmt.Sprintf("well-typed program does not compile: %v", r.Err), info
	}
	info.SQL = r.SQL
	st, err := sqlx.ParseStatement(r.SQL, sqlx.ClickHouse)
	if err != nil {
		return fmt.Sprintf("emitted SQL does not parse: %v\nsql: %s", err, r.SQL), info
	}
	scope, query, err := buildScope(prog, c.Params)
	if err != nil {
		info.HarnessError = "scope: " + err.Error()
		return "", info
	}
	idb := interp.DB{}
	sdb := sqlx.DB{}
	for name, t := range c.DB {
		idb[name] = &interp.Rel{Cols: t.Cols, Rows: t.Rows}
		sdb[name] = &sqlx.Table{Cols: t.Cols, Rows: t.Rows}
	}
	want, err := interp.Run(query, idb, map[string]*interp.Rel{}, scope)
	if err != nil {
		if dc, ok := err.(*interp.DontCare); ok {
			info.Skipped = dc.Error()
			return "", info
		}
		info.HarnessError = "reference interpreter: " + err.Error()
		return "", info
	}
	ordered, terms := orderInfo(query)
	info.OrderChecked = ordered
	info.ResultRows = len(want.Rows)
	for _, sourceFirst := range []bool{false, true} {
		reading := "alias-first (ClickHouse)"
		if sourceFirst {
			reading = "source-column-first (standard)"
		}
		got, err := sqlx.Eval(st, sdb, sqlx.Options{SourceFirst: sourceFirst, Params: sqlParams})
		if err != nil {
			if ee, ok := err.(*sqlx.EvalError); ok && ee.IllFormed {
				continue
			}
			if strings.HasPrefix(err.Error(), "poison:") {
				info.Skipped = err.Error()
				return "", info
			}
			return fmt.Sprintf("emitted SQL fails under the %s reading: %v\nsql: %s", reading, err, r.SQL), info
		}
		info.Readings++
		for _, row := range got.Rows {
			for _, v := range row {
				if prim.IsPoison(v) {
					info.Skipped = "don't-care value in the result"
					return "", info
				}
			}
		}
		for _, row := range want.Rows {
			for _, v := range row {
				if prim.IsPoison(v) {
					info.Skipped = "don't-care value in the result"
					return "", info
				}
			}
		}
		if len(got.Cols) != len(want.Cols) {
			return fmt.Sprintf("columns under the %s reading: SQL gives %q, the pipeline gives %q\nsql: %s", reading, got.Cols, want.Cols, r.SQL), info
		}
		for i := range want.Cols {
			if !strings.HasPrefix(want.Cols[i], "?") && want.Cols[i] != got.Cols[i] {
				return fmt.Sprintf("columns under the %s reading: SQL gives %q, the pipeline gives %q\nsql: %s", reading, got.Cols, want.Cols, r.SQL), info
			}
		}
		w, g := rowsKeys(want.Rows), rowsKeys(got.Rows)
		if ordered {
			same := len(w) == len(g)
			for i := 0; same && i < len(w); i++ {
				same = w[i] == g[i]
			}
			if !same {
				if sameMultiset(w, g) && terms != nil && sortedBy(want.Cols, got.Rows, terms, scope) {
					info.TieTolerant = true
					continue
				}
				return fmt.Sprintf("rows under the %s reading differ (a sort determines the order)\n pipeline: %s\n sql:      %s\nsql: %s", reading, showRows(want.Cols, want.Rows), showRows(got.Cols, got.Rows), r.SQL), info
			}
		} else if !sameMultiset(w, g) {
			return fmt.Sprintf("rows under the %s reading differ (compared as multisets)\n pipeline: %s\n sql:      %s\nsql: %s", reading, showRows(want.Cols, want.Rows), showRows(got.Cols, got.Rows), r.SQL), info
		}
	}
	if info.Readings == 0 {
		return fmt.Sprintf("the emitted SQL is ill-formed under every reading (a SELECT that aggregates refers to a column that is neither grouped nor aggregated)\nsql: %s", r.SQL), info
	}
	return "", info
}

func toInterpDB(db map[string]*gen.TableData) interp.DB {
	out := interp.DB{}
	for name, t := range db {
		out[name] = &interp.Rel{Cols: t.Cols, Rows: t.Rows}
	}
	return out
}

package props

// C07 — the parser builds the tree the documented grammar dictates.

import (
	"encoding/json"
	"fmt"
	"strings"
	"testing"

	"github.com/runreveal/pql/parser"
	"pgregory.net/rapid"

	"verif/harness/astx"
	"verif/harness/gen"
	"verif/harness/harn"
	"verif/harness/reftok"
)

// tokensMatch compares parser.Scan's output with the intended token list of a
// printed program (kinds, values, spans).
func tokensMatch(laid *gen.Laid) string {
	got := parser.Scan(laid.Src)
	if len(got) != len(laid.Toks) {
		return fmt.Sprintf("scanner yields %d tokens, the program was printed as %d", len(got), len(laid.Toks))
	}
	for i, g := range got {
		w := laid.Toks[i]
		if kindMap[g.Kind] != w.Kind || g.Span.Start != laid.Spans[i][0] || g.Span.End != laid.Spans[i][1] {
			return fmt.Sprintf("token %d: scanner %v %v, printed kind %d %v %q", i, g.Kind, g.Span, w.Kind, laid.Spans[i], w.Text)
		}
		switch w.Kind {
		case reftok.Ident, reftok.QIdent, reftok.String:
			if g.Value != w.Value {
				return fmt.Sprintf("token %d %q: scanner value %q, intended %q", i, w.Text, g.Value, w.Value)
			}
		}
	}
	return ""
}

// refTokensMatch: the reference tokenizer reads the laid-out source as the
// tokens the program was printed as (a check of the generator itself).
func refTokensMatch(laid *gen.Laid) string {
	got := reftok.Scan(laid.Src)
	if len(got) != len(laid.Toks) {
		return fmt.Sprintf("reference tokenizer yields %d tokens, the program was printed as %d", len(got), len(laid.Toks))
	}
	for i, g := range got {
		w := laid.Toks[i]
		if g.Kind != w.Kind || g.Start != laid.Spans[i][0] || g.End != laid.Spans[i][1] {
			return fmt.Sprintf("token %d: reference %v [%d,%d), printed kind %d %v %q", i, g.Kind, g.Start, g.End, w.Kind, laid.Spans[i], w.Text)
		}
		switch w.Kind {
		case reftok.Ident, reftok.QIdent, reftok.String:
			if g.Value != w.Value {
				return fmt.Sprintf("token %d %q: reference value %q, intended %q", i, w.Text, g.Value, w.Value)
			}
		}
	}
	return ""
}

// exprCase: a source that is one expression, with the canonical tree expected.
type exprCase struct {
	Src   string `json:"src"`
	SrcQ  string `json:"src_q"`
	Canon string `json:"expected_tree"`
}

func checkExprTree(c exprCase) string {
	src := strCase{Src: c.Src, SrcQ: c.SrcQ}.get()
	full := "T | where " + src
	stmts, err := parser.Parse(full)
	if err != nil {
		return fmt.Sprintf("grammar expression rejected: %v", err)
	}
	if len(stmts) != 1 {
		return fmt.Sprintf("%d statements", len(stmts))
	}
	te, ok := stmts[0].(*parser.TabularExpr)
	if !ok || len(te.Operators) != 1 {
		return fmt.Sprintf("unexpected statement shape %s", astx.Canon(stmts[0]))
	}
	w, ok := te.Operators[0].(*parser.WhereOperator)
	if !ok {
		return fmt.Sprintf("unexpected operator %T", te.Operators[0])
	}
	if got := astx.Canon(w.Predicate); got != c.Canon {
		return fmt.Sprintf("tree differs:\n  parser:  %s\n  grammar: %s", got, c.Canon)
	}
	return ""
}

// progCase: a whole program in one layout, with the canonical tree expected.
type progCase struct {
	Src   string `json:"src"`
	SrcQ  string `json:"src_q"`
	Canon string `json:"expected_tree"`
}

func checkProgTree(c progCase) string {
	src := strCase{Src: c.Src, SrcQ: c.SrcQ}.get()
	stmts, err := parser.Parse(src)
	if err != nil {
		return fmt.Sprintf("grammar program rejected: %v", err)
	}
	if got := astx.Canon(stmts); got != c.Canon {
		return fmt.Sprintf("tree differs:\n  parser:  %s\n  grammar: %s", got, c.Canon)
	}
	return ""
}

func init() {
	replayers["exprtree"] = func(raw json.RawMessage) string {
		var c exprCase
		if err := json.Unmarshal(raw, &c); err != nil {
			return "bad replay: " + err.Error()
		}
		return checkExprTree(c)
	}
	replayers["progtree"] = func(raw json.RawMessage) string {
		var c progCase
		if err := json.Unmarshal(raw, &c); err != nil {
			return "bad replay: " + err.Error()
		}
		return checkProgTree(c)
	}
}

var allOps16 = append(append([]string{}, gen.BinaryOps...), "in")

// TestC07Exhaustive enumerates operand (op operand){1..N} over the sixteen
// binary operators with every sign pattern and compares with the reference
// expression parser.
func TestC07Exhaustive(t *testing.T) {
	st := harn.NewStats(env, "exhaustive")
	defer st.Flush()
	maxOps := env.Pick(3, 4)
	st.SetExhaustive(fmt.Sprintf("operand (op operand){1..%d} over the 16 binary operators (in with a one-element list), every sign pattern on the operands", maxOps))
	operands := []string{"a", "b", "c", "d", "e"}
	opTok := func(op string) gen.Tok {
		pr := gen.PrintExpr(&gen.Binary{Op: op, X: gen.ID("x"), Y: gen.ID("y")})
		return pr.Toks[1]
	}
	idx := 0
	var failed bool
	for n := 1; n <= maxOps && !failed; n++ {
		total := 1
		for i := 0; i < n; i++ {
			total *= 16
		}
		for code := 0; code < total && !failed; code++ {
			ops := make([]string, n)
			c := code
			for i := 0; i < n; i++ {
				ops[i] = allOps16[c%16]
				c /= 16
			}
			for signs := 0; signs < 1<<(n+1) && !failed; signs++ {
				idx++
				if idx%env.NShards != env.Shard {
					continue
				}
				var toks []gen.Tok
				operand := func(i int) {
					if signs>>i&1 == 1 {
						toks = append(toks, gen.Tok{Kind: reftok.Minus, Text: "-"})
					}
					toks = append(toks, gen.Tok{Kind: reftok.Ident, Text: operands[i], Value: operands[i]})
				}
				operand(0)
				for i, op := range ops {
					if op == "in" {
						toks = append(toks, gen.Tok{Kind: reftok.In, Text: "in"}, gen.Tok{Kind: reftok.LParen, Text: "("})
						operand(i + 1)
						toks = append(toks, gen.Tok{Kind: reftok.RParen, Text: ")"})
					} else {
						toks = append(toks, opTok(op))
						operand(i + 1)
					}
				}
				want, err := gen.RefParseExpr(toks)
				if err != nil {
					t.Fatalf("harness: reference parser rejects an enumerated sequence: %v", err)
				}
				src := gen.Layout(gen.TokensOnly(toks), nil).Src
				c := exprCase{Src: src, SrcQ: mkStrCase(src).SrcQ, Canon: gen.Canon(want)}
				st.Eval()
				if n >= 2 {
					st.NonTrivialExact(1)
					st.SampleHashed("sequence", src, func() any { return map[string]string{"src": src, "tree": c.Canon} })
				}
				if msg := checkExprTree(c); msg != "" {
					failed = true
					st.Violation(t, "C07", "exprtree", c, "%s: %s", src, msg)
				}
			}
		}
	}
}

func exprNonTrivial(x gen.Expr) bool {
	ops := map[string]bool{}
	nbin, special := 0, false
	gen.WalkExpr(x, func(e gen.Expr) {
		switch e := e.(type) {
		case *gen.Binary:
			nbin++
			ops[e.Op] = true
		case *gen.In:
			nbin++
			ops["in"] = true
		case *gen.Unary:
			switch e.X.(type) {
			case *gen.Index, *gen.Call:
				special = true
			}
		}
	})
	return nbin >= 2 && len(ops) >= 2 || special
}

// TestC07Exprs: random deep expressions; expected tree = the generator's tree,
// cross-checked against the reference parser.
func TestC07Exprs(t *testing.T) {
	st := harn.NewStats(env, "exprs")
	defer st.Flush()
	maxDepth := env.Pick(7, 10)
	rapid.Check(t, func(rt *rapid.T) {
		g := gen.NewG(rt, gen.Cfg{MaxDepth: maxDepth})
		x := g.Expr(1+rapid.IntRange(0, maxDepth-1).Draw(rt, "exprdepth"), gen.ECtx{})
		pr := gen.PrintExpr(x)
		want := gen.Canon(x)
		ref, err := gen.RefParseExpr(pr.Toks)
		if err != nil || gen.Canon(ref) != want {
			rt.Fatalf("harness: generator and reference parser disagree on %s: %v\n gen %s\n ref %s", gen.Layout(pr, nil).Src, err, want, gen.Canon(ref))
		}
		for li := 0; li < 2; li++ {
			laid := gen.Layout(pr, g.Seps(len(pr.Toks)))
			// the expression is embedded after "T | where "
			c := exprCase{Src: laid.Src, SrcQ: mkStrCase(laid.Src).SrcQ, Canon: want}
			st.Eval()
			if exprNonTrivial(x) {
				st.NonTrivial(want + "|" + gen.LayoutClass(laid.Src))
				st.SampleHashed("expr", laid.Src, func() any { return map[string]string{"src": laid.Src, "tree": want} })
			}
			if msg := checkExprTree(c); msg != "" {
				st.Violation(rt, "C07", "exprtree", c, "%+q: %s", laid.Src, msg)
			}
		}
	})
}

// TestC07Deep: expressions nested tens to hundreds of levels deep, mixing
// every kind of group (parentheses, argument lists, index brackets, in-lists,
// signs): the grammar puts no bound on nesting.
func TestC07Deep(t *testing.T) {
	st := harn.NewStats(env, "deep")
	defer st.Flush()
	rapid.Check(t, func(rt *rapid.T) {
		g := gen.NewG(rt, gen.Cfg{MaxDepth: 1})
		depth := rapid.IntRange(20, 300).Draw(rt, "nesting")
		if rapid.IntRange(0, 3).Draw(rt, "boundary") == 0 {
			depth = rapid.SampledFrom([]int{31, 32, 33, 63, 64, 65, 66, 127, 128, 129, 255, 256, 257}).Draw(rt, "boundarydepth")
		}
		var x gen.Expr = gen.ID("x")
		kinds := map[string]bool{}
		// a run of one wrapper kind, then another: deep stretches of each
		for d := 0; d < depth; {
			k := rapid.SampledFrom([]string{"paren", "call", "index", "in", "sign", "call2", "indexbase"}).Draw(rt, "wrapper")
			run := rapid.IntRange(1, 1+depth/3).Draw(rt, "run")
			kinds[k] = true
			for j := 0; j < run && d < depth; j, d = j+1, d+1 {
				switch k {
				case "paren":
					x = &gen.Paren{X: x}
				case "call":
					x = &gen.Call{Func: "f", Args: []gen.Expr{x}}
				case "call2":
					x = &gen.Call{Func: "g", Args: []gen.Expr{&gen.Num{Text: "1"}, x, gen.ID("z")}}
				case "index":
					x = &gen.Index{X: gen.ID("m"), I: x}
				case "indexbase":
					x = &gen.Index{X: &gen.Paren{X: x}, I: &gen.Str{Value: "k"}}
				case "in":
					x = &gen.Paren{X: &gen.In{X: gen.ID("a"), Vals: []gen.Expr{&gen.Num{Text: "0"}, x}}}
				default:
					x = &gen.Unary{Op: "-", X: &gen.Paren{X: x}}
				}
			}
		}
		pr := gen.PrintExpr(x)
		want := gen.Canon(x)
		for li := 0; li < 2; li++ {
			var seps []string
			if li == 1 {
				seps = g.Seps(len(pr.Toks))
			}
			laid := gen.Layout(pr, seps)
			c := exprCase{Src: laid.Src, SrcQ: mkStrCase(laid.Src).SrcQ, Canon: want}
			st.Eval()
			st.ClassN("nesting-levels", int64(depth))
			st.NonTrivial(fmt.Sprint(depth, len(kinds), li, len(laid.Src)))
			if msg := checkExprTree(c); msg != "" {
				st.Violation(rt, "C07", "exprtree", c, "an expression nested %d deep (%d bytes): %s", depth, len(laid.Src), trunc(msg, 400))
			}
		}
	})
}

func progNonTrivial(p *gen.Program, src string) (bool, []string) {
	var classes []string
	nt := false
	for _, s := range p.Stmts {
		t, ok := s.(*gen.Tabular)
		if !ok {
			continue
		}
		gen.WalkTabular(t, func(_ *gen.Tabular, op gen.Op) {
			classes = append(classes, "op:"+gen.OpKind(op))
			switch op := op.(type) {
			case *gen.Sort:
				for _, tm := range op.Terms {
					if tm.Dir != "" || tm.Nulls != "" {
						nt = true
						classes = append(classes, "sort-term-flags")
					}
				}
			case *gen.Top:
				nt = true
			case *gen.Join:
				nt = true
				if op.Kind != "" {
					classes = append(classes, "join-kind")
				}
			case *gen.Render:
				if len(op.Props) > 0 {
					nt = true
					classes = append(classes, "render-props")
				}
			case *gen.Summarize:
				if len(op.By) > 0 && len(op.Cols) > 0 {
					nt = true
				}
			case *gen.Project, *gen.Extend:
				nt = true
			}
			for _, x := range gen.ExprsOfOp(op) {
				if exprNonTrivial(x) {
					nt = true
				}
			}
		})
	}
	if strings.ContainsAny(src, "\n\t") || strings.Contains(src, "//") {
		nt = true
	}
	if len(p.Stmts) > 1 {
		classes = append(classes, "multi-statement")
	}
	return nt, classes
}

// TestC07Programs: whole programs with every operator and optional part, in
// two layouts each.
func TestC07Programs(t *testing.T) {
	st := harn.NewStats(env, "programs")
	defer st.Flush()
	rapid.Check(t, func(rt *rapid.T) {
		g := gen.NewG(rt, gen.Cfg{MaxDepth: 3, MaxOps: 5, JoinDepth: 2, Lets: true, Hostile: true})
		prog := g.Program()
		pr := gen.Print(prog)
		want := gen.Canon(prog)
		for li := 0; li < 2; li++ {
			laid := gen.Layout(pr, g.Seps(len(pr.Toks)))
			if m := tokensMatch(laid); m != "" {
				// the lexer disagrees with the intended tokens: a C09 matter, but
				// it makes the expected tree meaningless, so report it here too
				st.Violation(rt, "C07", "progtree", progCase{Src: laid.Src, SrcQ: mkStrCase(laid.Src).SrcQ, Canon: want}, "%+q: tokens: %s", laid.Src, m)
			}
			c := progCase{Src: laid.Src, SrcQ: mkStrCase(laid.Src).SrcQ, Canon: want}
			st.Eval()
			nt, classes := progNonTrivial(prog, laid.Src)
			for _, cl := range classes {
				st.Class(cl)
			}
			st.Class("layout:" + gen.LayoutClass(laid.Src))
			if nt {
				st.NonTrivial(want + "|" + gen.LayoutClass(laid.Src))
				st.SampleHashed("program", laid.Src, func() any { return laid.Src })
			}
			if msg := checkProgTree(c); msg != "" {
				st.Violation(rt, "C07", "progtree", c, "%+q: %s", laid.Src, msg)
			}
		}
	})
}

// TestC07Large: programs that are large but flat: pipelines of hundreds of
// operators and expressions with hundreds of terms side by side (calls,
// parenthesised groups, in-lists, index expressions). The grammar has no size
// limit; the tree must be the same as for small programs, only longer.
// genLargeProgram draws a program that is large but flat: hundreds of
// operators, terms, statements or list elements side by side.
func genLargeProgram(rt *rapid.T, g *gen.G) (prog *gen.Program, class string, n int) {
	n = rapid.IntRange(50, 700).Draw(rt, "size")
	if rapid.IntRange(0, 5).Draw(rt, "boundary") == 0 {
		// sizes around powers of two
		n = rapid.SampledFrom([]int{63, 64, 65, 127, 128, 129, 255, 256, 257, 511, 512, 513, 1023, 1024, 1025}).Draw(rt, "boundarysize")
	}
	prog = &gen.Program{}
	switch rapid.IntRange(0, 3).Draw(rt, "largekind") {
	case 0:
		// a pipeline of n stages, each with a bracket somewhere
		q := &gen.Tabular{Table: gen.Ident{Name: "T"}}
		for i := 0; i < n; i++ {
			switch i % 4 {
			case 0:
				q.Ops = append(q.Ops, &gen.Where{Pred: &gen.Binary{Op: ">", X: gen.ID(fmt.Sprintf("c%d", i)), Y: &gen.Paren{X: &gen.Num{Text: fmt.Sprint(i)}}}})
			case 1:
				id := gen.Ident{Name: fmt.Sprintf("e%d", i)}
				q.Ops = append(q.Ops, &gen.Extend{Cols: []*gen.Col{{Name: &id, X: &gen.Call{Func: "f", Args: []gen.Expr{gen.ID("a"), &gen.Num{Text: fmt.Sprint(i)}}}}}})
			case 2:
				q.Ops = append(q.Ops, &gen.Where{Pred: &gen.In{X: gen.ID("k"), Vals: []gen.Expr{&gen.Num{Text: "1"}, &gen.Num{Text: fmt.Sprint(i)}}}})
			default:
				q.Ops = append(q.Ops, &gen.Sort{Terms: []*gen.Term{{X: &gen.Index{X: gen.ID("m"), I: &gen.Str{Value: fmt.Sprintf("k%d", i)}}, Dir: "asc"}}})
			}
		}
		prog.Stmts = []gen.Stmt{q}
		class = "long-pipeline"
	case 1:
		// one expression with n terms side by side
		op := rapid.SampledFrom([]string{"or", "and", "+"}).Draw(rt, "chainop")
		var x gen.Expr
		for i := 0; i < n; i++ {
			var term gen.Expr
			switch i % 3 {
			case 0:
				term = &gen.Call{Func: "startswith", Args: []gen.Expr{gen.ID("name"), &gen.Str{Value: fmt.Sprintf("p%d", i)}}}
			case 1:
				term = &gen.Paren{X: &gen.Binary{Op: "==", X: gen.ID("x"), Y: &gen.Num{Text: fmt.Sprint(i)}}}
			default:
				term = &gen.In{X: gen.ID("y"), Vals: []gen.Expr{&gen.Num{Text: fmt.Sprint(i)}}}
				if op == "+" || op == "and" {
					term = &gen.Paren{X: term}
				}
			}
			if x == nil {
				x = term
			} else {
				x = &gen.Binary{Op: op, X: x, Y: term}
			}
		}
		prog.Stmts = []gen.Stmt{&gen.Tabular{Table: gen.Ident{Name: "T"}, Ops: []gen.Op{&gen.Where{Pred: x}}}}
		class = "long-expression"
	case 2:
		// many statements: lets, then the query
		for i := 0; i < n; i++ {
			prog.Stmts = append(prog.Stmts, &gen.Let{Name: gen.Ident{Name: fmt.Sprintf("v%d", i)}, X: &gen.Paren{X: &gen.Num{Text: fmt.Sprint(i)}}})
		}
		prog.Stmts = append(prog.Stmts, g.Tabular(0))
		class = "many-statements"
	default:
		// long lists: project / call arguments / in-list
		p := &gen.Project{}
		c := &gen.Call{Func: "f"}
		in := &gen.In{X: gen.ID("k")}
		for i := 0; i < n; i++ {
			id := gen.Ident{Name: fmt.Sprintf("p%d", i)}
			p.Cols = append(p.Cols, &gen.Col{Name: &id, X: &gen.Paren{X: gen.ID("a")}})
			c.Args = append(c.Args, &gen.Index{X: gen.ID("m"), I: &gen.Num{Text: fmt.Sprint(i)}})
			in.Vals = append(in.Vals, &gen.Paren{X: &gen.Num{Text: fmt.Sprint(i)}})
		}
		prog.Stmts = []gen.Stmt{&gen.Tabular{Table: gen.Ident{Name: "T"}, Ops: []gen.Op{p, &gen.Where{Pred: &gen.Binary{Op: "and", X: c, Y: in}}}}}
		class = "long-lists"
	}
	return prog, class, n
}

func TestC07Large(t *testing.T) {
	st := harn.NewStats(env, "large")
	defer st.Flush()
	rapid.Check(t, func(rt *rapid.T) {
		g := gen.NewG(rt, gen.Cfg{MaxDepth: 1, MaxOps: 2, JoinDepth: 0, Compilable: true})
		prog, class, n := genLargeProgram(rt, g)
		pr := gen.Print(prog)
		laid := gen.Layout(pr, nil)
		c := progCase{Src: laid.Src, SrcQ: mkStrCase(laid.Src).SrcQ, Canon: gen.Canon(prog)}
		st.Eval()
		st.Class(class)
		st.NonTrivial(fmt.Sprint(class, n))
		if n < 60 {
			st.SampleHashed(class, laid.Src, func() any { return trunc(laid.Src, 300) })
		}
		if msg := checkProgTree(c); msg != "" {
			st.Violation(rt, "C07", "progtree", c, "%s program of size %d: %s", class, n, trunc(msg, 600))
		}
	})
}

package props

// C09 — the lexer partitions the source into the documented tokens.
//
// Oracle: (1) partition laws on parser.Scan's output; (2) differential against
// the independent reference tokenizer (kinds, spans, values; numbers compared
// as exact rationals); (3) idempotence of each token's own text; (4) numeric
// accessors of literals against the spelling.

import (
	"fmt"
	"math"
	"math/big"
	"regexp"
	"strings"
	"testing"
	"unicode"
	"unicode/utf8"

	"github.com/runreveal/pql/parser"
	"pgregory.net/rapid"

	"verif/harness/harn"
	"verif/harness/reftok"
)

var decimalRE = regexp.MustCompile(`^(0|[1-9][0-9]*)(\.[0-9]*)?([eE][+-]?[0-9]+)?$`)

// gapOK reports whether a gap between tokens holds only white space and
// complete //-comments (a comment ends at a newline or at end of input).
func gapOK(gap string, atEOF bool) bool {
	i := 0
	for i < len(gap) {
		r, w := utf8.DecodeRuneInString(gap[i:])
		if !(r == utf8.RuneError && w == 1) && unicode.IsSpace(r) {
			i += w
			continue
		}
		if strings.HasPrefix(gap[i:], "//") {
			j := strings.IndexByte(gap[i:], '\n')
			if j < 0 {
				// comment runs to the end of the gap: only fine at end of input
				return atEOF
			}
			i += j + 1
			continue
		}
		return false
	}
	return true
}

func checkLex(src string) string {
	got := parser.Scan(src)
	// (1) partition
	pos := 0
	for i, tok := range got {
		sp := tok.Span
		if !(sp.Start >= pos && sp.End >= sp.Start && sp.End <= len(src)) {
			return fmt.Sprintf("token %d %v span %v out of order or outside source (previous end %d, len %d)", i, tok.Kind, sp, pos, len(src))
		}
		if sp.End == sp.Start {
			return fmt.Sprintf("token %d %v has empty span %v", i, tok.Kind, sp)
		}
		if !gapOK(src[pos:sp.Start], false) {
			return fmt.Sprintf("gap %q before token %d is not white space / comments", src[pos:sp.Start], i)
		}
		pos = sp.End
	}
	if !gapOK(src[pos:], true) {
		return fmt.Sprintf("trailing gap %q is not white space / comments", src[pos:])
	}
	// (2) reference
	want := reftok.Scan(src)
	if len(got) != len(want) {
		return fmt.Sprintf("token count: scanner %d, reference %d (scanner %s; reference %s)", len(got), len(want), showToks(src, got), showRef(src, want))
	}
	for i := range got {
		g, w := got[i], want[i]
		if kindMap[g.Kind] != w.Kind || g.Span.Start != w.Start || g.Span.End != w.End {
			return fmt.Sprintf("token %d: scanner %v %v %q, reference kind=%d [%d,%d) %q", i, g.Kind, g.Span, src[g.Span.Start:g.Span.End], w.Kind, w.Start, w.End, src[w.Start:w.End])
		}
		switch w.Kind {
		case reftok.Ident, reftok.QIdent, reftok.String:
			if g.Value != w.Value {
				return fmt.Sprintf("token %d (%q) value: scanner %q, reference %q", i, src[w.Start:w.End], g.Value, w.Value)
			}
			if w.Kind == reftok.String {
				if m := checkNonNumberAccessors(g.Kind, g.Value); m != "" {
					return fmt.Sprintf("token %d (%q): %s", i, src[w.Start:w.End], m)
				}
			}
		case reftok.Number:
			if !decimalRE.MatchString(g.Value) {
				return fmt.Sprintf("token %d (%q): value %q is not a decimal spelling", i, src[w.Start:w.End], g.Value)
			}
			if v := reftok.ParseDecimal(g.Value); v == nil || v.Cmp(w.Num) != 0 {
				return fmt.Sprintf("token %d (%q): value %q is not numerically %v", i, src[w.Start:w.End], g.Value, w.Num)
			}
			if m := checkAccessors(g.Value, w.Num); m != "" {
				return fmt.Sprintf("token %d (%q): %s", i, src[w.Start:w.End], m)
			}
		case reftok.Error:
		default:
			if g.Value != "" {
				return fmt.Sprintf("token %d (%q): operator/keyword token carries value %q", i, src[w.Start:w.End], g.Value)
			}
		}
	}
	// (3) idempotence
	for i, g := range got {
		text := src[g.Span.Start:g.Span.End]
		again := parser.Scan(text)
		if len(again) != 1 {
			return fmt.Sprintf("token %d text %q re-scans to %d tokens", i, text, len(again))
		}
		a := again[0]
		if a.Kind != g.Kind || a.Span.Start != 0 || a.Span.End != len(text) {
			return fmt.Sprintf("token %d text %q re-scans to %v %v", i, text, a.Kind, a.Span)
		}
		if g.Kind != parser.TokenError && a.Value != g.Value {
			return fmt.Sprintf("token %d text %q re-scans to value %q, had %q", i, text, a.Value, g.Value)
		}
	}
	return ""
}

func showToks(src string, toks []parser.Token) string {
	var sb strings.Builder
	for _, t := range toks {
		fmt.Fprintf(&sb, "%v%q ", t.Kind, src[max(0, min(t.Span.Start, len(src))):max(0, min(t.Span.End, len(src)))])
	}
	return sb.String()
}

func showRef(src string, toks []reftok.Token) string {
	var sb strings.Builder
	for _, t := range toks {
		fmt.Fprintf(&sb, "%d%q ", t.Kind, src[t.Start:t.End])
	}
	return sb.String()
}

var maxU64 = new(big.Rat).SetInt(new(big.Int).SetUint64(math.MaxUint64))

// checkAccessors: the numeric accessors of a literal built from a number
// token agree with the spelling (exact value `num`) whenever representable.
// checkNonNumberAccessors: the numeric accessors of a literal that is not a
// number are documented to be false / 0, whatever its text looks like.
func checkNonNumberAccessors(kind parser.TokenKind, value string) string {
	lit := &parser.BasicLit{Kind: kind, Value: value}
	if lit.IsInteger() || lit.IsFloat() {
		return fmt.Sprintf("a %v literal %q reports IsInteger=%v IsFloat=%v", kind, value, lit.IsInteger(), lit.IsFloat())
	}
	if f, u := lit.Float64(), lit.Uint64(); f != 0 || u != 0 {
		return fmt.Sprintf("a %v literal %q reports Float64()=%v Uint64()=%d, documented: 0 for a literal that is not a number", kind, value, f, u)
	}
	return ""
}

func checkAccessors(value string, num *big.Rat) string {
	lit := &parser.BasicLit{Kind: parser.TokenNumber, Value: value}
	if lit.IsInteger() == lit.IsFloat() {
		return fmt.Sprintf("IsInteger=%v IsFloat=%v", lit.IsInteger(), lit.IsFloat())
	}
	intSpelling := !strings.ContainsAny(value, ".eE")
	if lit.IsInteger() != intSpelling {
		return fmt.Sprintf("IsInteger=%v for spelling %q", lit.IsInteger(), value)
	}
	wantF, _ := num.Float64()
	if !math.IsInf(wantF, 0) {
		if gotF := lit.Float64(); gotF != wantF {
			return fmt.Sprintf("Float64()=%v, spelling means %v", gotF, wantF)
		}
	}
	if intSpelling {
		if num.Cmp(maxU64) <= 0 {
			if got := lit.Uint64(); new(big.Rat).SetInt(new(big.Int).SetUint64(got)).Cmp(num) != 0 {
				return fmt.Sprintf("Uint64()=%d, spelling means %v", got, num)
			}
		}
	} else if !math.IsInf(wantF, 0) && wantF >= 0 && wantF < 1.8446744073709551e19 {
		if got := lit.Uint64(); got != uint64(wantF) {
			return fmt.Sprintf("Uint64()=%d for float spelling %q (want %d)", got, value, uint64(wantF))
		}
	}
	return ""
}

// lexNonTrivial: the string holds a multi-character lexeme or drives the
// scanner through a state with look-ahead.
func lexNonTrivial(src string) bool {
	toks := reftok.Scan(src)
	for _, t := range toks {
		if t.End-t.Start > 1 {
			return true
		}
	}
	return strings.ContainsAny(src, "0.\\/=!<>'\"`") && len(src) > 1
}

func init() {
	replayers["lex"] = strReplayer(checkLex)
}

func TestC09Exhaustive(t *testing.T) {
	st := harn.NewStats(env, "exhaustive")
	defer st.Flush()
	maxLen := env.Pick(4, 5)
	st.SetExhaustive(fmt.Sprintf("all strings of length <= %d over the 27-symbol alphabet %q and all strings of length <= %d over the complementary alphabet %q", maxLen, alphabet27, maxLen, alphabetB))
	failed := false
	// second pass: the complementary alphabet
	enumStrings(alphabetB, maxLen, env.Shard, env.NShards, func(s string) {
		if failed {
			return
		}
		st.Eval()
		if lexNonTrivial(s) {
			st.NonTrivialExact(1)
			st.SampleHashed("nontrivial-b", s, func() any { return fmt.Sprintf("%+q", s) })
		}
		if msg := checkLex(s); msg != "" {
			failed = true
			st.Violation(t, "C09", "lex", mkStrCase(s), "%+q: %s", s, msg)
		}
	})
	enumStrings(alphabet27, maxLen, env.Shard, env.NShards, func(s string) {
		if failed {
			return
		}
		st.Eval()
		if lexNonTrivial(s) {
			st.NonTrivialExact(1)
			st.SampleHashed("nontrivial", s, func() any { return fmt.Sprintf("%+q", s) })
		}
		if msg := checkLex(s); msg != "" {
			failed = true
			st.Violation(t, "C09", "lex", mkStrCase(s), "%+q: %s", s, msg)
		}
	})
}

// lexPieces are the building blocks of the random strings: every lexeme class
// and the hostile boundary cases of each scanner state.
var lexPieces = []string{
	"a", "Z", "_x1", "$left", "and", "or", "in", "by", "andy", "a$b", "let", "é", "ж", "\u00a0", " ", "\ufeff",
	"0", "1", "42", "007", "0x", "0x1F", "0XAB", "0xg", "0xFFFFFFFFFFFFFFFF", "0x10000000000000000", "1.", ".5", "1.5", "1..2", ".", "..",
	"1e", "1e5", "1E+", "1e+9", "1e-3", "1.e2", "0e", "0e0", "00", "0.0", "1e5x", "9999999999999999999999", "1e400",
	"'", "\"", "`", "''", "\"\"", "``", "'a'", "\"a\"", "`a b`", "`a``b`", "'\\''", "'\\n'", "'\\t'", "'\\\\'", "\\", "'\\", "'a\\\nb'", "\"\xff\"", "'\\\xff'", "'\\é'",
	"\n", " ", "\t", "\r\n", "//", "// c\n", "/", "/ /", "///",
	"=", "==", "=~", "!", "!=", "!~", "!!", "<", "<=", ">", ">=", "<>", "=<",
	"+", "-", "*", "%", "|", ",", ";", "(", ")", "[", "]", "{", "}", "#", "@", "\x00", "\xff", "\xc3", "\xe2\x82",
	"0x00000000000000001", "0x0000000000000000000ff", "0x0ffffffffffffffff", "9007199254740993", "18446744073709551615", "18446744073709551616",
	"'\\u0041'", "\"\\u0027\"", "0.5.5", "0..5", "00.1.2",
	"\xa0", "\x85", " \xa0", "\n\x85", "\ufeff", "00e5", "000e-3", "00E0", "0.0e5", "00.5e1", "0e5",
	"1e0002147483647", "1e-0002147483647", "1e00000000309", "1e000000", "2e+0000000000000000001",
	"\xc0\xbb", "\xc0\xa7", "\xc1\x9c", "\xc0\x8a", "\xc0\xa2", "'a\xc0\xa7; b'", "1or", "3by", "7in", "2desc", "1e5x", "0x1g",
	"T | take 1e1000000000000000", "T | top 1e2147483648 by a", "T | limit 2.5e1000000000000", "T | take 1E+9999999999", "1e9999999999",
	"tas\u212a", "\u212a", "\u0130", "\u017f", "\u212b", "K\u212a", "1e19", "12E18", "1.6e19", "9223372036854775808.0", "18446744073709551615.0", "1.8446744073709552e19",
	"'\u65e5\u65e5\u65e5\u65e5\u65e5\u65e5\u65e5\u65e5\u65e5\u65e5\u65e5\u65e5\u65e5\u65e5\u65e5\u65e5\u65e5\u65e5\u65e5\u65e5\u65e5\u65e5'", "`\U0001f600\U0001f600\U0001f600\U0001f600\U0001f600\U0001f600\U0001f600\U0001f600\U0001f600\U0001f600\U0001f600\U0001f600\U0001f600\U0001f600\U0001f600\U0001f600\U0001f600`", "'\u65e5\u65e5\u65e5\u65e5\u65e5\u65e5\u65e5\u65e5\u65e5\u65e5\u65e5\u65e5\u65e5\u65e5\u65e5\u65e5\u65e5\u65e5\u65e5\u65e5\u65e5\u65e5\u65e5\u65e5\u65e5",
	"len_src_len547 src_len_rows68", "rows_evt_src821 len_addr_len723", "src_path_time86 flag_src_evt854", "name_name_rows0 size_src_len421", "dst_src_host256 read_read_cost8", "evt_src_name591 code_src_len575",
	"0x1F\uff10", "0x\uff21", "\uff10", "1\uff10", "'\\\u016e'", "\"\\\U0001f46e\"", "'\\\u0174x\\\u2074'", "`\\\u016e`", "h'abc", "H\"abc", "h'a'", "@'a'", "1e- ", "1e+x", "1E-|", "x between (1 .. 2)", "1..2", "a..b",
	"'12.5'", "\"1e3\"", "'7'", "'0x10'", "\"Infinity\"", "'NaN'", "'-0'",
	"// c\u2028d\n", "// c\u0085| count\n", "//\u2029x", "// \r x\n",
	"\ufffd", "\ufffc", "\ufffe", "a\ufffd", " \ufffd ", "\u2028", "\u2029", "\u0085", "\u3000", "\u200b", "\u00ad", "\xc0\xaf", "\xed\xa0\x80", "\xf4\x90\x80\x80", "e\u0301", "'e\u0301'", "`\u2028`",
	"2147483647", "2147483648", "4294967295", "4294967296", "9223372036854775807", "9223372036854775808", "0x7fffffffffffffff", "0x8000000000000000", "0xffffffff", "1e308", "1e309", "4.9e-324",
	"/*", "*/", "/* c */", "/* c;\n d */", "AND", "Or", "IN", "By", "aNd",
	// digits and numerics outside ASCII, other scripts' letters
	"\u0663", "\uff15", "\u00b2", "\u2167", "\u0967", "\u4e00",
}

// bulkString: one short unit repeated hundreds or thousands of times (more
// errors, tokens or statements than any small counter or buffer holds), with
// ordinary statements around it.
func bulkString(t *rapid.T) string {
	unit := rapid.SampledFrom([]string{"#", "#?@^&~{}", "\xff", "!", "'", "a ", "1;", "; ", "x;y;", "\\", "@ ;", "`", "// c\n", "0x "}).Draw(t, "bulkunit")
	n := rapid.SampledFrom([]int{255, 256, 257, 999, 1000, 1001, 1500, 4095, 4096, 4097}).Draw(t, "bulkn")
	pre := rapid.SampledFrom([]string{"", "T | count; ", "let x = 1;\n"}).Draw(t, "bulkpre")
	post := rapid.SampledFrom([]string{"", "; T | count; U | take 1;", "\n;U", ";"}).Draw(t, "bulkpost")
	return pre + strings.Repeat(unit, n) + post
}

func genLexString(t *rapid.T) string {
	if rapid.IntRange(0, env.Pick(149, 1999)).Draw(t, "bulk") == 0 {
		return bulkString(t)
	}
	n := rapid.IntRange(1, 12).Draw(t, "pieces")
	var sb strings.Builder
	for i := 0; i < n && sb.Len() < 64; i++ {
		switch rapid.IntRange(0, 9).Draw(t, "kind") {
		case 0:
			sb.WriteByte(rapid.Byte().Draw(t, "byte"))
		case 1:
			sb.WriteRune(rapid.Rune().Draw(t, "rune"))
		default:
			sb.WriteString(rapid.SampledFrom(lexPieces).Draw(t, "piece"))
		}
	}
	return sb.String()
}

// TestC09SourceChars: every pair and triple of the characters the scanner's
// own source mentions, followed by the endings of the token kinds (an open
// string, a closed string, digits, a name, a comment): whatever letter a change
// gives a meaning to in front of a quote or a digit is tried here.
func TestC09SourceChars(t *testing.T) {
	st := harn.NewStats(env, "sourcechars")
	defer st.Flush()
	chars := sourceChars()
	for _, c := range []string{"h", "H", "r", "b", "u", "@", "$", "_", "\u00e9"} {
		chars = append(chars, c)
	}
	tails := []string{"", "'abc", "\"abc", "'a'", "\"a\" x", "`a`", "`a", "1", "0x1", ".5", "a", "//x\ny", "- ", "-1", "+x", "e5", " "}
	st.SetExhaustive(fmt.Sprintf("every string c1 c2 tail and 1 c1 c2 tail with c1, c2 among the %d characters that occur as rune literals in parser/lex.go (plus a few letters) and tail among %q", len(chars), tails))
	if len(chars) < 15 {
		t.Fatalf("harness: only %d rune literals found in %s/parser/lex.go", len(chars), repoDir())
	}
	idx := 0
	for _, c1 := range chars {
		for _, c2 := range append([]string{""}, chars...) {
			idx++
			if idx%env.NShards != env.Shard {
				continue
			}
			for _, tail := range tails {
				for _, head := range []string{"", "1", "x "} {
					s := head + c1 + c2 + tail
					st.Eval()
					st.NonTrivialExact(1)
					if msg := checkLex(s); msg != "" {
						st.Violation(t, "C09", "lex", mkStrCase(s), "%+q: %s", s, msg)
						return
					}
				}
			}
		}
	}
}

func TestC09Random(t *testing.T) {
	st := harn.NewStats(env, "random")
	defer st.Flush()
	rapid.Check(t, func(rt *rapid.T) {
		s := genLexString(rt)
		st.Eval()
		if lexNonTrivial(s) {
			st.NonTrivial(s)
			st.SampleHashed("nontrivial", s, func() any { return fmt.Sprintf("%+q", s) })
		}
		if !utf8.ValidString(s) {
			st.Class("invalid-utf8")
		}
		if msg := checkLex(s); msg != "" {
			st.Violation(rt, "C09", "lex", mkStrCase(s), "%+q: %s", s, msg)
		}
	})
}

package props

// C11 — tree traversal reaches every node exactly once and never fails.

import (
	"fmt"
	"strings"
	"testing"

	"github.com/runreveal/pql/parser"
	"pgregory.net/rapid"

	"verif/harness/astx"
	"verif/harness/gen"
	"verif/harness/harn"
)

// walkRequired: must Walk visit this node? Identifiers and expressions, except
// a call's function name and a join's kind.
func walkRequired(in astx.Info) bool {
	switch in.Node.(type) {
	case *parser.Ident:
		if _, ok := in.Parent.(*parser.CallExpr); ok && in.Field == "Func" {
			return false
		}
		if _, ok := in.Parent.(*parser.JoinOperator); ok && in.Field == "Flavor" {
			return false
		}
		return true
	}
	_, isExpr := in.Node.(parser.Expr)
	return isExpr
}

type walkRun struct {
	order []parser.Node
	pan   string
	nils  int
}

func runWalk(root parser.Node, prune map[parser.Node]bool) (r walkRun) {
	defer func() {
		if rec := recover(); rec != nil {
			r.pan = fmt.Sprint(rec)
		}
	}()
	parser.Walk(root, func(n parser.Node) bool {
		if astx.IsNilNode(n) {
			r.nils++
			return true
		}
		r.order = append(r.order, n)
		return !prune[n]
	})
	return r
}

// checkWalkOn verifies the traversal laws for Walk(root, ...). pruneIdx picks
// the visits (by index into the full visit order, modulo its length) that
// answer false in the second run.
func checkWalkOn(root parser.Node, pruneIdx []int) string {
	infos := astx.All(root)
	parent := map[parser.Node]parser.Node{}
	reach := map[parser.Node]astx.Info{}
	for _, in := range infos {
		reach[in.Node] = in
		if in.Parent != nil {
			parent[in.Node] = in.Parent
		}
	}
	full := runWalk(root, nil)
	if full.pan != "" {
		return "Walk panics: " + full.pan
	}
	if full.nils > 0 {
		return fmt.Sprintf("the visitor was called %d time(s) with a nil node", full.nils)
	}
	pos := map[parser.Node]int{}
	for i, n := range full.order {
		if _, dup := pos[n]; dup {
			return fmt.Sprintf("%T visited twice", n)
		}
		pos[n] = i
		if _, ok := reach[n]; !ok {
			return fmt.Sprintf("visited a %T that is not part of the tree", n)
		}
	}
	for _, in := range infos {
		p, visited := pos[in.Node]
		if walkRequired(in) && !visited {
			return fmt.Sprintf("%T (field %s of %T) is never visited", in.Node, in.Field, in.Parent)
		}
		if visited {
			for a := parent[in.Node]; a != nil; a = parent[a] {
				if pa, ok := pos[a]; ok && pa > p {
					return fmt.Sprintf("%T is visited before its ancestor %T", in.Node, a)
				}
			}
		}
	}
	if len(full.order) == 0 || len(pruneIdx) == 0 {
		return ""
	}
	prune := map[parser.Node]bool{}
	for _, i := range pruneIdx {
		prune[full.order[((i%len(full.order))+len(full.order))%len(full.order)]] = true
	}
	pruned := runWalk(root, prune)
	if pruned.pan != "" {
		return "Walk panics when the visitor returns false: " + pruned.pan
	}
	got := map[parser.Node]bool{}
	for _, n := range pruned.order {
		if got[n] {
			return fmt.Sprintf("%T visited twice in the pruned run", n)
		}
		got[n] = true
	}
	for _, n := range full.order {
		want := true
		for a := parent[n]; a != nil; a = parent[a] {
			if prune[a] {
				want = false
				break
			}
		}
		if want != got[n] {
			if want {
				return fmt.Sprintf("pruning: %T should still be visited (no pruned ancestor) but is skipped", n)
			}
			return fmt.Sprintf("pruning: %T lies below a node whose visit returned false but is visited", n)
		}
	}
	if len(pruned.order) > len(full.order) {
		return "pruned run visits more nodes than the full run"
	}
	// A visitor may leave a traversal early by panicking (and recovering in
	// its caller): that must not influence later traversals.
	stopAt := ((pruneIdx[0] % len(full.order)) + len(full.order)) % len(full.order)
	func() {
		defer func() { recover() }()
		k := 0
		parser.Walk(root, func(n parser.Node) bool {
			if k == stopAt {
				panic("visitor leaves the traversal")
			}
			k++
			return true
		})
	}()
	again := runWalk(root, nil)
	if again.pan != "" {
		return "Walk panics after an earlier traversal was abandoned: " + again.pan
	}
	if len(again.order) != len(full.order) {
		return fmt.Sprintf("after an earlier traversal was abandoned by its visitor, Walk visits %d nodes instead of %d", len(again.order), len(full.order))
	}
	for i := range again.order {
		if again.order[i] != full.order[i] {
			return fmt.Sprintf("after an earlier traversal was abandoned by its visitor, visit %d is a %T instead of a %T", i, again.order[i], full.order[i])
		}
	}
	return ""
}

type walkCase struct {
	Src   string `json:"src"`
	SrcQ  string `json:"src_q"`
	Prune []int  `json:"prune"`
}

// checkWalk runs the laws on every statement of a parsed source and on every
// expression subtree on its own (the compiler's usage).
func checkWalk(c walkCase) (msg string, parsed bool, nodes int) {
	src := strCase{Src: c.Src, SrcQ: c.SrcQ}.get()
	stmts, err := parser.Parse(src)
	if err != nil {
		return "", false, 0
	}
	for i, st := range stmts {
		if m := checkWalkOn(st, c.Prune); m != "" {
			return fmt.Sprintf("statement %d: %s", i, m), true, 0
		}
		for _, in := range astx.All(st) {
			nodes++
			if x, ok := in.Node.(parser.Expr); ok && in.Parent != nil {
				if m := checkWalkOn(x, c.Prune); m != "" {
					return fmt.Sprintf("statement %d, Walk over the %T subtree: %s", i, x, m), true, nodes
				}
			}
		}
	}
	return "", true, nodes
}

func init() {
	replayers["walk"] = jsonReplayer(func(c walkCase) string { m, _, _ := checkWalk(c); return m })
}

func walkNonTrivial(src string, nodes int) (bool, []string) {
	stmts, err := parser.Parse(src)
	if err != nil {
		return false, nil
	}
	var classes []string
	seen := map[string]bool{}
	add := func(c string) {
		if !seen[c] {
			seen[c] = true
			classes = append(classes, c)
		}
	}
	for _, st := range stmts {
		for _, in := range astx.All(st) {
			switch n := in.Node.(type) {
			case *parser.ParenExpr:
				add("paren")
			case *parser.ExtendColumn:
				if n.Name == nil {
					add("unnamed-extend-column")
				}
			case *parser.SummarizeColumn:
				if n.Name == nil {
					add("unnamed-summarize-column")
				}
			case *parser.RenderProperty:
				add("render-property")
			case *parser.JoinOperator:
				if in.Depth > 1 {
					add("nested-join")
				} else {
					add("join")
				}
			case *parser.ProjectColumn:
				if n.X == nil {
					add("project-without-expr")
				}
			case *parser.LetStatement:
				add("let")
			}
		}
	}
	return len(classes) > 0 && nodes >= 10, classes
}

func TestC11Programs(t *testing.T) {
	st := harn.NewStats(env, "programs")
	defer st.Flush()
	rapid.Check(t, func(rt *rapid.T) {
		g := gen.NewG(rt, gen.Cfg{MaxDepth: 3, MaxOps: 5, JoinDepth: 2, Lets: true, Hostile: false})
		prog := g.Program()
		pr := gen.Print(prog)
		src := gen.Layout(pr, nil).Src
		mutant := rapid.IntRange(0, 4).Draw(rt, "mutate") == 0
		if mutant {
			toks, _ := g.MutateTokens(pr.Toks)
			src = gen.Layout(gen.TokensOnly(toks), nil).Src
		}
		for round := 0; round < 2; round++ {
			c := walkCase{Src: src, SrcQ: mkStrCase(src).SrcQ, Prune: rapid.SliceOfN(rapid.IntRange(0, 1000), 1, 4).Draw(rt, "prune")}
			msg, parsed, nodes := checkWalk(c)
			if !parsed {
				if !mutant {
					st.Class("grammar-program-rejected") // C07's business
					return
				}
				st.Class("mutant-rejected")
				return
			}
			st.Eval()
			nt, classes := walkNonTrivial(src, nodes)
			for _, cl := range classes {
				st.Class(cl)
			}
			if mutant {
				st.Class("accepted-mutant")
			}
			if nt {
				st.NonTrivial(fmt.Sprint(gen.Shape(prog), c.Prune, mutant))
				st.SampleHashed("program", src, func() any { return map[string]any{"src": src, "prune": c.Prune} })
			}
			if msg != "" {
				st.Violation(rt, "C11", "walk", c, "%+q: %s", src, msg)
			}
		}
	})
}

func TestC11Soups(t *testing.T) {
	st := harn.NewStats(env, "soups")
	defer st.Flush()
	maxLen := env.Pick(4, 5)
	st.SetExhaustive(fmt.Sprintf("all sequences of <= %d tokens over %q spliced into %q; all sequences of <= %d tokens over %q spliced into %q (the ones that parse)", maxLen, soupLarge, soupContexts, env.Pick(3, 4), soupOps, soupOpContexts))
	failed := false
	one := func(soup string, contexts []string) {
		for _, ctx := range contexts {
			if failed {
				return
			}
			src := fmt.Sprintf(ctx, soup)
			c := walkCase{Src: src, Prune: []int{1, 2}}
			msg, parsed, _ := checkWalk(c)
			if !parsed {
				continue
			}
			st.Eval()
			st.NonTrivialExact(1)
			st.SampleHashed("soup", src, func() any { return src })
			if msg != "" {
				failed = true
				st.Violation(t, "C11", "walk", c, "%+q: %s", src, msg)
			}
		}
	}
	enumSoups(soupLarge, maxLen, env.Shard, env.NShards, func(soup string) { one(soup, soupContexts) })
	enumSoups(soupOps, env.Pick(3, 4), env.Shard, env.NShards, func(soup string) { one(soup, soupOpContexts) })
	nw := enumDictionary(env.Pick(4, 5), env.Shard, env.NShards, func(src string) { one(src, []string{"%s"}) })
	st.Note("plus the source dictionary: each of the %d words found as string literals in the parser and compiler sources followed by every sequence of <= %d tokens over %q, spliced into %q", nw, env.Pick(4, 5), dictTail, dictContexts)
}

// TestC11Huge: statements of tens of thousands to millions of nodes: every
// node is visited exactly once, parents first, and Walk returns.
func TestC11Huge(t *testing.T) {
	st := harn.NewStats(env, "huge")
	defer st.Flush()
	sizes := []int{1<<16 + 3, 1<<20 + 7}
	if env.Thorough() {
		sizes = append(sizes, 1<<21+1, 1<<22+5)
	}
	st.SetExhaustive(fmt.Sprintf("one statement with an in-list, one with an operator chain and one with an argument list of each size in %v", sizes))
	for i, n := range sizes {
		for k, shape := range []string{"in-list", "operator-chain", "call-arguments"} {
			if (i*3+k)%env.NShards != env.Shard {
				continue
			}
			var sb strings.Builder
			switch shape {
			case "in-list":
				sb.WriteString("Events | where code in (0")
				for j := 1; j < n; j++ {
					sb.WriteString(",7")
				}
				sb.WriteString(")")
			case "operator-chain":
				sb.WriteString("T | where a")
				for j := 1; j < n; j++ {
					sb.WriteString("+b")
				}
			default:
				sb.WriteString("T | extend s = strcat(a")
				for j := 1; j < n; j++ {
					sb.WriteString(",b")
				}
				sb.WriteString(")")
			}
			src := sb.String()
			stmts, err := parser.Parse(src)
			if err != nil {
				continue // C07 / C12 speak about rejection of large programs
			}
			st.Eval()
			st.NonTrivialExact(1)
			st.Class(shape)
			msg := ""
			for _, stmt := range stmts {
				all := astx.All(stmt)
				want := 0
				for _, in := range all {
					if walkRequired(in) {
						want++
					}
				}
				seen := make(map[parser.Node]bool, len(all))
				pan := ""
				func() {
					defer func() {
						if r := recover(); r != nil {
							pan = fmt.Sprint(r)
						}
					}()
					parser.Walk(stmt, func(nd parser.Node) bool {
						if astx.IsNilNode(nd) {
							msg = "the visitor was called with a nil node"
						} else if seen[nd] {
							msg = fmt.Sprintf("%T visited twice", nd)
						}
						seen[nd] = true
						return true
					})
				}()
				if pan != "" {
					msg = "Walk panics: " + trunc(pan, 200)
				}
				got := 0
				for _, in := range all {
					if walkRequired(in) && seen[in.Node] {
						got++
					}
				}
				if msg == "" && got != want {
					msg = fmt.Sprintf("Walk visits %d of the %d identifiers and expressions", got, want)
				}
			}
			if msg != "" {
				st.Violation(t, "C11", "walk", walkCase{Src: "", SrcQ: ""}, "a %s statement with %d elements (%d bytes): %s", shape, n, len(src), msg)
				return
			}
		}
	}
}

// TestC11Large: traversal of large flat programs.
func TestC11Large(t *testing.T) {
	st := harn.NewStats(env, "large")
	defer st.Flush()
	rapid.Check(t, func(rt *rapid.T) {
		g := gen.NewG(rt, gen.Cfg{MaxDepth: 1, MaxOps: 2, JoinDepth: 0, Compilable: true})
		prog, class, n := genLargeProgram(rt, g)
		if n > 300 {
			n = 300 // the laws are quadratic in the number of nodes
			return
		}
		src := gen.Source(prog)
		c := walkCase{Src: src, SrcQ: mkStrCase(src).SrcQ, Prune: rapid.SliceOfN(rapid.IntRange(0, 5000), 1, 3).Draw(rt, "prune")}
		msg, parsed, _ := checkWalk(c)
		if !parsed {
			st.Class("grammar-program-rejected") // C07's business
			return
		}
		st.Eval()
		st.Class(class)
		st.NonTrivial(fmt.Sprint(class, n, c.Prune))
		if msg != "" {
			st.Violation(rt, "C11", "walk", c, "%s program of size %d: %s", class, n, trunc(msg, 600))
		}
	})
}

package props

// C05 — successful output is exactly one well-formed SQL statement.

import (
	"fmt"
	"strings"
	"testing"

	"github.com/runreveal/pql"
	"github.com/runreveal/pql/parser"
	"pgregory.net/rapid"

	"verif/harness/astx"
	"verif/harness/gen"
	"verif/harness/harn"
	"verif/harness/sqlx"
)

// sourceTables collects the table names and `as` names a parsed program
// mentions; ok=false when the program is outside C05's domain (it repeats an
// `as` name, or calls a function whose name is an SQL structural keyword).
// Names that look like generated ones (`__subquery1`) are inside the domain:
// a generated name has to be unique whatever the source calls its tables.
func sourceTables(stmts []parser.Statement) (tables map[string]bool, ok bool, why string) {
	tables = map[string]bool{}
	asNames := map[string]bool{}
	ok = true
	for _, st := range stmts {
		for _, in := range astx.All(st) {
			switch n := in.Node.(type) {
			case *parser.TableRef:
				if n.Table != nil {
					tables[n.Table.Name] = true
				}
			case *parser.AsOperator:
				if n.Name != nil {
					if asNames[n.Name.Name] {
						ok, why = false, "repeated `as` name"
					}
					asNames[n.Name.Name] = true
				}
			case *parser.CallExpr:
				if _, builtin := gen.Builtins[n.Func.Name]; n.Func != nil && !builtin && sqlKeywords[strings.ToUpper(n.Func.Name)] {
					ok, why = false, "pass-through function named like an SQL keyword"
				}
			}
		}
	}
	for n := range asNames {
		tables[n] = true
	}
	return
}

var sqlKeywords = map[string]bool{"SELECT": true, "FROM": true, "WHERE": true, "GROUP": true, "ORDER": true, "BY": true, "LIMIT": true, "JOIN": true, "LEFT": true, "INNER": true,
	"ON": true, "AS": true, "AND": true, "OR": true, "NOT": true, "IN": true, "IS": true, "NULL": true, "CASE": true, "WHEN": true, "THEN": true, "ELSE": true, "END": true,
	"WITH": true, "DISTINCT": true, "FILTER": true, "ASC": true, "DESC": true, "NULLS": true, "TRUE": true, "FALSE": true, "CURRENT_TIMESTAMP": true, "OUTER": true, "UNION": true,
	"HAVING": true, "BETWEEN": true, "LIKE": true, "EXISTS": true, "ALL": true, "ANY": true, "INTERVAL": true, "CAST": true}

// wellFormed checks one emitted statement. tables: names the PQL source reads.
func wellFormed(sql string, tables map[string]bool) string {
	if sql == "" {
		return "empty SQL"
	}
	for _, mode := range []sqlx.Mode{sqlx.Standard, sqlx.ClickHouse} {
		mname := "standard"
		if mode == sqlx.ClickHouse {
			mname = "ClickHouse"
		}
		toks, err := sqlx.Lex(sql, mode)
		if err != nil {
			return fmt.Sprintf("does not lex under %s quoting rules: %v", mname, err)
		}
		depth := 0
		for i, t := range toks {
			switch {
			case t.Kind == sqlx.TComment:
				return fmt.Sprintf("contains a comment under %s rules: %q", mname, t.Text)
			case t.Kind == sqlx.TOp && t.Text == ";":
				if i != len(toks)-2 { // last token before EOF
					return fmt.Sprintf("statement separator in the middle of the output (%s rules, token %d of %d)", mname, i, len(toks)-1)
				}
			case t.Kind == sqlx.TOp && (t.Text == "(" || t.Text == "["):
				depth++
			case t.Kind == sqlx.TOp && (t.Text == ")" || t.Text == "]"):
				depth--
				if depth < 0 {
					return "unbalanced closing bracket"
				}
			}
		}
		if depth != 0 {
			return "unbalanced brackets"
		}
		if len(toks) < 2 || toks[len(toks)-2].Text != ";" {
			return "does not end in a semicolon"
		}
		st, err := sqlx.ParseStatement(sql, mode)
		if err != nil {
			return fmt.Sprintf("does not parse as [WITH ...] select; under %s rules: %v", mname, err)
		}
		// data sources
		defined := map[string]bool{}
		used := map[string]bool{}
		var checkSel func(s *sqlx.Select) string
		checkFactor := func(f sqlx.Factor) string {
			if f.Sub != nil {
				return checkSel(f.Sub)
			}
			if defined[f.Table] {
				used[f.Table] = true
				return ""
			}
			// names are compared as the target dialect decodes them
			if mode == sqlx.ClickHouse && tables != nil && !tables[f.Table] {
				return fmt.Sprintf("reads %q, which is neither a table of the PQL source nor a common table expression defined earlier", f.Table)
			}
			return ""
		}
		checkSel = func(s *sqlx.Select) string {
			if m := checkFactor(s.From); m != "" {
				return m
			}
			for _, j := range s.Joins {
				if m := checkFactor(j.F); m != "" {
					return m
				}
			}
			return ""
		}
		for _, c := range st.CTEs {
			if m := checkSel(c.Sel); m != "" {
				return fmt.Sprintf("CTE %q %s", c.Name, m)
			}
			if defined[c.Name] {
				return fmt.Sprintf("common table expression name %q is defined twice", c.Name)
			}
			defined[c.Name] = true
		}
		if m := checkSel(st.Sel); m != "" {
			return "final SELECT " + m
		}
		for _, c := range st.CTEs {
			if !used[c.Name] {
				return fmt.Sprintf("common table expression %q is never used", c.Name)
			}
		}
	}
	return ""
}

// checkStatement: if src compiles (with params), its output is well-formed.
func checkStatement(src string, params map[string]string) (msg string, compiled bool, skip string, sql string) {
	stmts, perr := parser.Parse(src)
	if perr != nil {
		return "", false, "", ""
	}
	tables, ok, why := sourceTables(stmts)
	if !ok {
		return "", false, why, ""
	}
	var opts *pql.CompileOptions
	if len(params) > 0 {
		opts = &pql.CompileOptions{Parameters: params}
	}
	r := safeCompile(src, opts)
	if r.Hung || r.Panic != "" || r.Inconcl {
		return "", false, "hang/panic (C12's business)", ""
	}
	if r.Err != nil {
		return "", false, "", ""
	}
	return wellFormed(r.SQL, tables), true, "", r.SQL
}

type stmtCase struct {
	strCase
	Params map[string]string `json:"params,omitempty"`
}

func init() {
	replayers["statement"] = jsonReplayer(func(c stmtCase) string {
		m, _, _, _ := checkStatement(c.get(), c.Params)
		return m
	})
}

var benignParams = []map[string]string{nil, nil, {"a": "{a: Int32}"}, {"k": "{k: String}", "n": "{n: Int64}"}, {"true": "{t: Bool}", "Col9": "{c9: Int32}"}, {"L1": "{l1: Int32}", "n": "{n: Int64}"}, {"T": "{t: String}", "L2": "'x'"}}

func TestC05Programs(t *testing.T) {
	st := harn.NewStats(env, "programs")
	defer st.Flush()
	rapid.Check(t, func(rt *rapid.T) {
		g := gen.NewG(rt, gen.Cfg{MaxDepth: 3, MaxOps: 6, JoinDepth: 2, Lets: true, Hostile: true, Compilable: true})
		prog := g.Program()
		pr := gen.Print(prog)
		params := rapid.SampledFrom(benignParams).Draw(rt, "params")
		variant := rapid.IntRange(0, 4).Draw(rt, "variant")
		mutated := variant >= 2
		var src string
		if variant == 4 {
			// a documented misuse planted somewhere (C13 says it must be rejected;
			// here: if anything comes out, it is still one well-formed statement)
			kind := rapid.SampledFrom(plantKinds).Draw(rt, "plant")
			if _, _, ok := plant(rt, g, prog, kind); ok {
				st.Class("planted-misuse")
			}
			pr = gen.Print(prog)
			src = gen.Layout(pr, nil).Src
		} else if mutated {
			toks, _ := g.MutateTokens(pr.Toks)
			src = gen.Layout(gen.TokensOnly(toks), g.Seps(len(toks))).Src
		} else {
			src = gen.Layout(pr, g.Seps(len(pr.Toks))).Src
		}
		st.Eval()
		msg, compiled, skip, sql := checkStatement(src, params)
		switch {
		case skip != "":
			st.Class("excluded:" + skip)
		case !compiled && !mutated:
			st.Class("grammar-program-not-compiled")
			if _, err := pql.Compile(src); err != nil {
				st.SampleHashed("not-compiled", src, func() any { return fmt.Sprintf("%+q: %v", src, err) })
			}
		case compiled:
			if mutated {
				st.Class("compiled-mutant")
			} else {
				st.Class("compiled-program")
			}
			if mutated || strings.HasPrefix(sql, "WITH") || strings.Contains(sql, " JOIN ") {
				st.NonTrivial(src)
				st.SampleHashed("compiled", src, func() any { return map[string]string{"pql": fmt.Sprintf("%+q", src), "sql": sql} })
			}
		}
		if msg != "" {
			st.Violation(rt, "C05", "statement", stmtCase{strCase: mkStrCase(src), Params: params}, "%+q: the emitted SQL %s\nsql: %s", src, msg, sql)
		}
	})
}

func TestC05Soups(t *testing.T) {
	st := harn.NewStats(env, "soups")
	defer st.Flush()
	maxLen := env.Pick(4, 5)
	st.SetExhaustive(fmt.Sprintf("all sequences of <= %d tokens over %q spliced into %q; all sequences of <= %d tokens over %q spliced into %q (the ones that compile)", maxLen, soupLarge, soupContexts, env.Pick(3, 4), soupOps, soupOpContexts))
	failed := false
	one := func(soup string, contexts []string) {
		for _, ctx := range contexts {
			if failed {
				return
			}
			src := fmt.Sprintf(ctx, soup)
			msg, compiled, _, sql := checkStatement(src, nil)
			if !compiled {
				continue
			}
			st.Eval()
			st.NonTrivialExact(1)
			st.SampleHashed("soup", src, func() any { return map[string]string{"pql": src, "sql": sql} })
			if msg != "" {
				failed = true
				st.Violation(t, "C05", "statement", stmtCase{strCase: mkStrCase(src)}, "%+q: the emitted SQL %s\nsql: %s", src, msg, sql)
			}
		}
	}
	enumSoups(soupLarge, maxLen, env.Shard, env.NShards, func(soup string) { one(soup, soupContexts) })
	enumSoups(soupOps, env.Pick(3, 4), env.Shard, env.NShards, func(soup string) { one(soup, soupOpContexts) })
	nw := enumDictionary(env.Pick(3, 4), env.Shard, env.NShards, func(src string) { one(src, []string{"%s"}) })
	st.Note("plus the source dictionary: each of the %d words found as string literals in the parser and compiler sources followed by every sequence of <= %d tokens over %q, spliced into %q", nw, env.Pick(3, 4), dictTail, dictContexts)
}

func FuzzC05Statement(f *testing.F) {
	for _, s := range fuzzSeeds("statement") {
		f.Add(s)
	}
	st := harn.NewStats(env, "fuzz")
	f.Fuzz(func(t *testing.T, src string) {
		if len(src) > 400 {
			return
		}
		if msg, _, _, sql := checkStatement(src, nil); msg != "" {
			st.Violation(t, "C05", "statement", stmtCase{strCase: mkStrCase(src)}, "%+q: the emitted SQL %s\nsql: %s", src, msg, sql)
		}
	})
}

// TestC05Large: large flat programs compile to one well-formed statement
// (two- and three-digit subquery numbers, long lists).
func TestC05Large(t *testing.T) {
	st := harn.NewStats(env, "large")
	defer st.Flush()
	rapid.Check(t, func(rt *rapid.T) {
		g := gen.NewG(rt, gen.Cfg{MaxDepth: 1, MaxOps: 2, JoinDepth: 0, Compilable: true})
		prog, class, n := genLargeProgram(rt, g)
		src := gen.Source(prog)
		st.Eval()
		st.Class(class)
		msg, compiled, skip, sql := checkStatement(src, nil)
		if skip != "" {
			st.Class("excluded:" + skip)
			return
		}
		if !compiled {
			if _, err := pql.Compile(src); err != nil {
				st.Violation(rt, "C05", "statement", stmtCase{strCase: mkStrCase(src)}, "%s program of size %d does not compile: %v", class, n, err)
			}
			return
		}
		st.NonTrivial(fmt.Sprint(class, n))
		if msg != "" {
			st.Violation(rt, "C05", "statement", stmtCase{strCase: mkStrCase(src)}, "%s program of size %d: the emitted SQL %s\nsql: %s", class, n, msg, trunc(sql, 400))
		}
	})
}

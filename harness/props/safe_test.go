package props

import (
	"fmt"
	"os"
	"runtime/debug"
	"syscall"
	"time"

	"github.com/runreveal/pql"
)

// hangCPUSeconds is the CPU time one call may burn before it is declared
// non-terminating. Calibration (DESIGN.md §2 C12): the slowest legitimate
// input of the size the checks generate (<= 4 KiB) takes about 3 s.
const hangCPUSeconds = 20.0

func cpuSeconds() float64 {
	var ru syscall.Rusage
	if err := syscall.Getrusage(syscall.RUSAGE_SELF, &ru); err != nil {
		return 0
	}
	tv := func(t syscall.Timeval) float64 { return float64(t.Sec) + float64(t.Usec)/1e6 }
	return tv(ru.Utime) + tv(ru.Stime)
}

// callResult is the outcome of a guarded call.
type callResult struct {
	SQL     string
	Err     error
	Panic   string // non-empty: the call panicked (value and stack)
	Hung    bool   // the call burnt hangCPUSeconds of CPU without returning
	Inconcl bool   // wall-clock limit hit without enough CPU burnt: no verdict
}

// guarded runs f in a goroutine and watches the process's CPU clock. A call
// that does not return is a hang only if the process consumed the CPU budget
// meanwhile, so machine load cannot fake one. After Hung the goroutine is
// still spinning: the caller must report and exit the process.
func guarded(f func() (string, error)) callResult {
	type res struct {
		sql string
		err error
		pan string
	}
	ch := make(chan res, 1)
	go func() {
		defer func() {
			if r := recover(); r != nil {
				ch <- res{pan: fmt.Sprintf("%v\n%s", r, debug.Stack())}
			}
		}()
		s, err := f()
		ch <- res{sql: s, err: err}
	}()
	// fast path
	select {
	case r := <-ch:
		return callResult{SQL: r.sql, Err: r.err, Panic: r.pan}
	case <-time.After(200 * time.Millisecond):
	}
	cpu0 := cpuSeconds()
	start := time.Now()
	tick := time.NewTicker(100 * time.Millisecond)
	defer tick.Stop()
	for {
		select {
		case r := <-ch:
			return callResult{SQL: r.sql, Err: r.err, Panic: r.pan}
		case <-tick.C:
			if cpuSeconds()-cpu0 >= hangCPUSeconds {
				return callResult{Hung: true}
			}
			if time.Since(start) > 8*time.Minute {
				return callResult{Inconcl: true}
			}
		}
	}
}

// safeCompile compiles under the watchdog.
func safeCompile(src string, opts *pql.CompileOptions) callResult {
	r := guarded(func() (string, error) { return opts.Compile(src) })
	if r.Hung || r.Panic != "" {
		// Compile is a function of its input: a hang or a panic that does not
		// happen again on the same input says something about the machine (or
		// about C14's subject), not about this input. No verdict then.
		again := guarded(func() (string, error) { return opts.Compile(src) })
		if !again.Hung && again.Panic == "" {
			again.Inconcl = true
			return again
		}
	}
	return r
}

// exitAfterHang ends the process: a spinning goroutine cannot be stopped, and
// neither shrinking nor further cases make sense with it around.
func exitAfterHang() {
	os.Stdout.Sync()
	os.Exit(1)
}

package props

// C08 — the parser accepts only what its tree represents.

import (
	"fmt"
	"os"
	"path/filepath"
	"regexp"
	"sort"
	"strings"
	"testing"

	"github.com/runreveal/pql/parser"
	"pgregory.net/rapid"

	"verif/harness/astx"
	"verif/harness/gen"
	"verif/harness/harn"
	"verif/harness/reftok"
)

func showTok(src string, t parser.Token) string {
	if t.Span.IsValid() && t.Span.End <= len(src) {
		return fmt.Sprintf("%v %+q", t.Kind, src[t.Span.Start:t.Span.End])
	}
	return fmt.Sprintf("%v %v", t.Kind, t.Span)
}

func showRTok(r astx.RTok) string {
	if r.Missing != "" {
		return "<missing " + r.Missing + ">"
	}
	if len(r.Alts) > 1 {
		return fmt.Sprintf("%v %q", r.Kind, r.Alts)
	}
	return fmt.Sprintf("%v %q", r.Kind, r.Value)
}

func rtokMatches(s parser.Token, r astx.RTok) bool {
	if r.Missing != "" || s.Kind != r.Kind {
		return false
	}
	switch s.Kind {
	case parser.TokenIdentifier:
		if len(r.Alts) > 0 {
			for _, a := range r.Alts {
				if s.Value == a {
					return true
				}
			}
			return false
		}
		return s.Value == r.Value
	case parser.TokenNumber:
		// s comes from the reference tokenizer: exact rational value
		v, _ := gen.NumValue(r.Value)
		return v != nil && s.Value == "#"+v.RatString()
	case parser.TokenQuotedIdentifier, parser.TokenString:
		return s.Value == r.Value
	}
	return true
}

var refToParser = func() map[reftok.Kind]parser.TokenKind {
	m := map[reftok.Kind]parser.TokenKind{}
	for pk, rk := range kindMap {
		m[rk] = pk
	}
	return m
}()

// refTokens converts the reference tokenization of src into parser tokens
// (numbers carry the decimal spelling of their exact value).
func refTokens(src string) ([]parser.Token, string) {
	var out []parser.Token
	for _, t := range reftok.Scan(src) {
		if t.Kind == reftok.Error {
			return nil, fmt.Sprintf("the source holds an unrecognisable piece %+q at [%d,%d)", src[t.Start:t.End], t.Start, t.End)
		}
		tok := parser.Token{Kind: refToParser[t.Kind], Span: parser.Span{Start: t.Start, End: t.End}, Value: t.Value}
		if t.Kind == reftok.Number {
			tok.Value = "#" + t.Num.RatString()
		}
		out = append(out, tok)
	}
	return out, ""
}

// dropEmptyStatements removes the semicolons that only delimit empty
// statements: leading, trailing and repeated ones.
func dropEmptyStatements(toks []parser.Token) []parser.Token {
	var out []parser.Token
	for _, t := range toks {
		if t.Kind == parser.TokenSemi && (len(out) == 0 || out[len(out)-1].Kind == parser.TokenSemi) {
			continue
		}
		out = append(out, t)
	}
	if len(out) > 0 && out[len(out)-1].Kind == parser.TokenSemi {
		out = out[:len(out)-1]
	}
	return out
}

// checkAccept returns "" when Parse rejects src, or when every significant
// token of src is accounted for in the returned tree, in order. usedAbsence
// reports whether an allowed absence (optional comma, empty statement) occurred.
func checkAccept(src string) (msg string, accepted, usedAbsence bool) {
	stmts, err := parser.Parse(src)
	if err != nil {
		return "", false, false
	}
	for _, t := range parser.Scan(src) {
		if t.Kind == parser.TokenError {
			return fmt.Sprintf("accepted although the source holds the scan error %q at %v", t.Value, t.Span), true, false
		}
	}
	// The source's token sequence is taken from the reference tokenizer, not
	// from the scanner under test: a malformed number or an unrecognised
	// character that the scanner swallows into a neighbouring token must still
	// be accounted for.
	toks, why := refTokens(src)
	if why != "" {
		return "accepted although " + why, true, false
	}
	s := dropEmptyStatements(toks)
	usedAbsence = len(s) != len(toks)
	r := astx.Reprint(stmts)
	i := 0
	for j := 0; j < len(r); j++ {
		if r[j].Missing != "" {
			return fmt.Sprintf("accepted, but the tree lacks a required part: %s (after %d source tokens)", r[j].Missing, i), true, usedAbsence
		}
		if i+1 < len(s) && s[i].Kind == parser.TokenComma && (r[j].CloseCall || r[j].SummarizeBy) && rtokMatches(s[i+1], r[j]) {
			i++
			usedAbsence = true
		}
		if i >= len(s) {
			return fmt.Sprintf("accepted, but the tree holds %s where the source has ended", showRTok(r[j])), true, usedAbsence
		}
		if !rtokMatches(s[i], r[j]) {
			return fmt.Sprintf("accepted, but source token %d is %s while the tree represents %s there", i, showTok(src, s[i]), showRTok(r[j])), true, usedAbsence
		}
		i++
	}
	if i != len(s) {
		return fmt.Sprintf("accepted, but %d source tokens from %s on are not represented in the tree", len(s)-i, showTok(src, s[i])), true, usedAbsence
	}
	return "", true, usedAbsence
}

func init() {
	replayers["accept"] = strReplayer(func(src string) string { m, _, _ := checkAccept(src); return m })
}

func TestC08Mutants(t *testing.T) {
	st := harn.NewStats(env, "mutants")
	defer st.Flush()
	rapid.Check(t, func(rt *rapid.T) {
		g := gen.NewG(rt, gen.Cfg{MaxDepth: 3, MaxOps: 4, JoinDepth: 2, Lets: true, Hostile: true})
		prog := g.Program()
		pr := gen.Print(prog)
		var src, kind string
		switch rapid.IntRange(0, 9).Draw(rt, "mutation") {
		case 0:
			src, kind = gen.Layout(pr, g.Seps(len(pr.Toks))).Src, "verbatim"
		case 1, 2:
			src, kind = g.MutateBytes(gen.Layout(pr, g.Seps(len(pr.Toks))).Src), "bytes"
		default:
			toks, k := g.MutateTokens(pr.Toks)
			src, kind = gen.Layout(gen.TokensOnly(toks), g.Seps(len(toks))).Src, "tokens:"+k
		}
		st.Eval()
		msg, accepted, absence := checkAccept(src)
		if kind == "verbatim" {
			st.Class("verbatim")
			if !accepted {
				rt.Fatalf("harness: unmutated grammar program rejected (C07's business): %+q", src)
			}
		} else {
			st.Class("mutant")
			if accepted {
				st.Class("mutant-accepted")
				st.NonTrivial(src)
				st.SampleHashed("accepted-mutant", src, func() any { return map[string]string{"src": fmt.Sprintf("%+q", src), "edits": kind} })
			}
		}
		if absence {
			st.Class("allowed-absence-used")
			st.NonTrivial(src)
		}
		if msg != "" {
			st.Violation(rt, "C08", "accept", mkStrCase(src), "%+q: %s", src, msg)
		}
	})
}

// fuzzSeeds returns the golden inputs and any saved corpus files.
func fuzzSeeds(target string) []string {
	var out []string
	files, _ := filepath.Glob(filepath.Join(repoDir(), "testdata/Goldens/*/input.pql"))
	for _, fn := range files {
		if b, err := os.ReadFile(fn); err == nil {
			out = append(out, string(b))
		}
	}
	if dir := os.Getenv("VERIF_CORPUS"); dir != "" {
		files, _ := filepath.Glob(filepath.Join(dir, target, "*"))
		for _, fn := range files {
			if b, err := os.ReadFile(fn); err == nil {
				out = append(out, string(b))
			}
		}
	}
	out = append(out,
		"T | where f(b[1], c) in (1, 2,) | summarize x = count(), by k | render pie with (a=1)",
		"let n = 5; T | join kind=inner (U | take n) on $left.a == $right.b, k | top 3 by a asc nulls last",
		"T | project a, b = c + 1 | extend d | sort by a desc nulls first, b | as X | count",
	)
	return out
}

func FuzzC08Accept(f *testing.F) {
	for _, s := range fuzzSeeds("accept") {
		f.Add(s)
	}
	st := harn.NewStats(env, "fuzz")
	f.Fuzz(func(t *testing.T, src string) {
		if len(src) > 400 {
			return
		}
		if msg, _, _ := checkAccept(src); msg != "" {
			st.Violation(t, "C08", "accept", mkStrCase(src), "%+q: %s", src, msg)
		}
	})
}

// soupSmall / soupLarge are token alphabets for the bounded-exhaustive token
// soups: every bracket kind, a callable name, a separator, operators of two
// kinds, keywords that end or continue productions.
var soupSmall = []string{"a", "f", "(", ")", "[", "]", ",", "+", "in"}
var soupLarge = []string{"a", "f", "(", ")", "[", "]", ",", "+", "by", "=", "in", "1", "asc", "`q i`", "1e+"}

// soupContexts are the positions the soup is spliced into.
var soupContexts = []string{"T | where %s", "T | summarize %s", "T | extend %s", "T | sort by %s", "T | join (U) on %s", "T | top 1 by %s | count", "T | project %s", "let x = %s; T"}

// soupOps / soupOpContexts: operator-level soups (keywords of every operator's
// optional parts) spliced where an operator or its arguments are expected.
var soupOps = []string{"a", "(", ")", ",", "=", "by", "kind", "inner", "on", "with", "nulls", "first", "asc", "|", "count", "1", "'s'", ";", "-", "`asc`", "'desc'", "٣", "0x10000000000000001", "'on'", "`kind`"}
var soupOpContexts = []string{"T | join %s", "T | join kind = %s", "T | join (U) %s", "T | render %s", "T | render x with (%s", "T | take %s", "T | as %s", "T | %s", "%s", "T | sort by a %s", "T | top %s", "T | summarize a %s", "let %s"}

// soupBrackets: a small alphabet taken to greater length.
var soupBrackets = []string{"a", "[", "]", "(", "1", ".", "'s'"}
var soupBracketContexts = []string{"T | where %s", "T | extend x = %s ) | count"}

// enumSoups calls f for every space-joined sequence of 0..maxLen alphabet
// symbols assigned to this shard.
func enumSoups(alphabet []string, maxLen, shard, nshards int, f func(soup string)) {
	idx := 0
	var rec func(prefix string, depth int)
	rec = func(prefix string, depth int) {
		idx++
		if idx%nshards == shard {
			f(prefix)
		}
		if depth == 0 {
			return
		}
		for _, a := range alphabet {
			if prefix == "" {
				rec(a, depth-1)
			} else {
				rec(prefix+" "+a, depth-1)
			}
		}
	}
	rec("", maxLen)
}

// repoDir is the checkout of pql the harness was built against.
func repoDir() string {
	if d := os.Getenv("VERIF_REPO"); d != "" {
		return d
	}
	return "/repo"
}

var wordLiteral = regexp.MustCompile(`"([A-Za-z_$][A-Za-z0-9_$]{1,15})"`)

// sourceWords is a dictionary taken from the code under test: every short
// word that occurs as a string literal in the parser or the compiler (keywords,
// option names, function names — and whatever a change adds to them).
func sourceWords() []string {
	files, _ := filepath.Glob(filepath.Join(repoDir(), "parser", "*.go"))
	files = append(files, filepath.Join(repoDir(), "pql.go"))
	seen := map[string]bool{}
	var out []string
	for _, fn := range files {
		if strings.HasSuffix(fn, "_test.go") {
			continue
		}
		b, err := os.ReadFile(fn)
		if err != nil {
			continue
		}
		for _, m := range wordLiteral.FindAllStringSubmatch(string(b), -1) {
			if !seen[m[1]] {
				seen[m[1]] = true
				out = append(out, m[1])
			}
		}
	}
	sort.Strings(out)
	return out
}

var runeLiteral = regexp.MustCompile(`'(\\?[^'\\]|\\')'`)

// sourceChars: the characters the scanner's source mentions as rune literals
// (quotes, operators, the letters of number syntax — and whatever prefix or
// escape letter a change teaches it).
func sourceChars() []string {
	b, err := os.ReadFile(filepath.Join(repoDir(), "parser", "lex.go"))
	if err != nil {
		return nil
	}
	seen := map[string]bool{}
	var out []string
	for _, m := range runeLiteral.FindAllStringSubmatch(string(b), -1) {
		c := m[1]
		switch c {
		case "\\n":
			c = "\n"
		case "\\t":
			c = "\t"
		case "\\r":
			c = "\r"
		case "\\'":
			c = "'"
		case "\\\\":
			c = "\\"
		}
		if len(c) > 0 && c[0] == '\\' && len(c) > 1 {
			continue
		}
		if !seen[c] {
			seen[c] = true
			out = append(out, c)
		}
	}
	sort.Strings(out)
	return out
}

// knownWords: the dictionary of the tree this harness was written against.
// Words beyond it are new to the language as the harness knows it.
var knownWords = map[string]bool{"$1": true, "$left": true, "$right": true, "AND": true, "EOF": true, "FALSE": true, "NULL": true, "OR": true, "TRUE": true, "TokenError": true, "and": true, "as": true, "asc": true, "by": true, "count": true, "countif": true, "desc": true, "errors": true, "extend": true, "false": true, "filter": true, "first": true, "fmt": true, "foo": true, "iff": true, "iif": true, "in": true, "inner": true, "innerunique": true, "isnotnull": true, "isnull": true, "join": true, "kind": true, "last": true, "leftouter": true, "let": true, "limit": true, "not": true, "now": true, "null": true, "nulls": true, "on": true, "or": true, "order": true, "project": true, "render": true, "render_prop_": true, "slices": true, "sort": true, "strcat": true, "strconv": true, "strings": true, "summarize": true, "sync": true, "take": true, "tolower": true, "top": true, "toupper": true, "true": true, "unicode": true, "unreachable": true, "where": true, "with": true, "__subquery": true, "render_type": true}

func init() {
	for _, w := range sourceWords() {
		if !knownWords[w] && plainOK(w) && len(w) >= 3 {
			gen.ExtraPassThrough = append(gen.ExtraPassThrough, w)
		}
	}
}

var dictTail = []string{".", "=", "a", "#", "(", ")"}
var dictContexts = []string{"T | join %s (U) on k", "T | join kind=inner %s (U) on k", "T | join (U) on k %s", "T | %s", "T | where a %s", "T | sort by a %s", "T | take 1 %s", "T | summarize %s", "T | project %s", "T | render x %s", "T | as x %s", "%s", "let %s"}

// enumDictionary calls f for every dictionary source of this shard: word,
// tail of <= maxTail tokens, context.
func enumDictionary(maxTail, shard, nshards int, f func(src string)) int {
	words := sourceWords()
	for wi, w := range words {
		if wi%nshards != shard {
			continue
		}
		enumSoups(dictTail, maxTail, 0, 1, func(tail string) {
			soup := w
			if tail != "" {
				soup += " " + tail
			}
			for _, ctx := range dictContexts {
				f(fmt.Sprintf(ctx, soup))
			}
		})
	}
	return len(words)
}

// TestC08Dictionary: every word of the source dictionary followed by every
// short sequence of option-like tokens, in every operator context. A word the
// parser gives a meaning to (today or after a change) is reached this way
// without the generator knowing the grammar it belongs to.
func TestC08Dictionary(t *testing.T) {
	st := harn.NewStats(env, "dictionary")
	defer st.Flush()
	words := sourceWords()
	maxTail := env.Pick(4, 5)
	st.SetExhaustive(fmt.Sprintf("each of the %d words found as string literals in parser/*.go and pql.go, followed by every sequence of <= %d tokens over %q, spliced into %q", len(words), maxTail, dictTail, dictContexts))
	if len(words) < 20 {
		t.Fatalf("harness: only %d dictionary words found under %s", len(words), repoDir())
	}
	failed := false
	// the scanner's own characters in front of string and number endings
	if env.Shard == 0 {
		chars := append(sourceChars(), "h", "H", "r", "b", "u", "@")
		for _, c1 := range chars {
			for _, c2 := range append([]string{""}, chars...) {
				for _, tail := range []string{"'abc", "\"abc", "'a'", "\"a\"", "1", "`a`", "- ", "+"} {
					for _, ctx := range []string{"T | where x == %s", "T | extend y = %s | count", "let v = %s; T"} {
						if failed {
							break
						}
						src := fmt.Sprintf(ctx, c1+c2+tail)
						st.Eval()
						msg, accepted, _ := checkAccept(src)
						if accepted {
							st.Class("accepted")
							st.NonTrivialExact(1)
						}
						if msg != "" {
							failed = true
							st.Violation(t, "C08", "accept", mkStrCase(src), "%+q: %s", src, msg)
						}
					}
				}
			}
		}
	}
	// a dictionary word written as a string or a quoted name where a keyword
	// stands: a keyword is a bare word
	quotedTemplates := []string{"T | join (U) %s k", "T | join %s=inner (U) on k", "T | join kind=%s (U) on k", "T | sort by a %s", "T | sort by a asc %s first", "T | sort by a nulls %s", "T | top 1 %s a", "T | summarize x = count() %s k", "T | render x %s (a=1)", "%s v = 1; T", "T | %s a > 1", "T | take 1 | %s", "T | where a %s (1)", "T | where a > 1 %s b > 2"}
	for wi, w := range words {
		if wi%env.NShards != env.Shard || failed {
			continue
		}
		for _, qw := range []string{"'" + w + "'", "\"" + w + "\"", "`" + w + "`"} {
			for _, tmpl := range quotedTemplates {
				src := fmt.Sprintf(tmpl, qw)
				st.Eval()
				msg, accepted, _ := checkAccept(src)
				if accepted {
					st.Class("accepted")
					st.NonTrivialExact(1)
					// accepted is fine where the position takes a name or a value;
					// then the tree must hold a quoted name or a string, which
					// checkAccept has just verified token by token
				}
				if msg != "" && !failed {
					failed = true
					st.Violation(t, "C08", "accept", mkStrCase(src), "%+q: %s", src, msg)
				}
			}
		}
	}
	for wi, w := range words {
		if wi%env.NShards != env.Shard {
			continue
		}
		enumSoups(dictTail, maxTail, 0, 1, func(tail string) {
			soup := w
			if tail != "" {
				soup += " " + tail
			}
			for _, ctx := range dictContexts {
				if failed {
					return
				}
				src := fmt.Sprintf(ctx, soup)
				st.Eval()
				msg, accepted, _ := checkAccept(src)
				if accepted {
					st.Class("accepted")
					st.NonTrivialExact(1)
					st.SampleHashed("accepted", src, func() any { return src })
				}
				if msg != "" {
					failed = true
					st.Violation(t, "C08", "accept", mkStrCase(src), "%+q: %s", src, msg)
				}
			}
		})
	}
}

func TestC08Exhaustive(t *testing.T) {
	st := harn.NewStats(env, "soups")
	defer st.Flush()
	type pass struct {
		alphabet []string
		maxLen   int
	}
	passes := []pass{{soupSmall, 6}, {soupLarge, 4}}
	if env.Thorough() {
		passes = []pass{{soupLarge, 6}}
	}
	bound := ""
	for _, p := range passes {
		bound += fmt.Sprintf("all sequences of <= %d tokens over %q; ", p.maxLen, p.alphabet)
	}
	st.SetExhaustive(bound + fmt.Sprintf("each spliced into %q; plus all sequences of <= %d tokens over %q spliced into %q; plus all sequences of <= %d tokens over %q spliced into %q", soupContexts, env.Pick(3, 4), soupOps, soupOpContexts, env.Pick(7, 8), soupBrackets, soupBracketContexts))
	failed := false
	type ctxPass struct {
		pass
		contexts []string
	}
	var all []ctxPass
	for _, p := range passes {
		all = append(all, ctxPass{p, soupContexts})
	}
	all = append(all, ctxPass{pass{soupOps, env.Pick(3, 4)}, soupOpContexts})
	// longer sequences over brackets only: chained and nested indexing, calls
	all = append(all, ctxPass{pass{soupBrackets, env.Pick(7, 8)}, soupBracketContexts})
	for _, p := range all {
		contexts := p.contexts
		enumSoups(p.alphabet, p.maxLen, env.Shard, env.NShards, func(soup string) {
			for _, ctx := range contexts {
				if failed {
					return
				}
				src := fmt.Sprintf(ctx, soup)
				st.Eval()
				msg, accepted, absence := checkAccept(src)
				if accepted {
					st.Class("accepted")
					if absence {
						st.Class("allowed-absence-used")
					}
					st.NonTrivialExact(1)
					st.SampleHashed("accepted", src, func() any { return src })
				}
				if msg != "" {
					failed = true
					st.Violation(t, "C08", "accept", mkStrCase(src), "%+q: %s", src, msg)
				}
			}
		})
	}
}

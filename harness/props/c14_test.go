package props

// C14 — compilation is a pure, deterministic, thread-safe function.
//
// Each generated history is executed twice: sequentially in this process (the
// model: a memo from call to result) and in a fresh child process (this test
// binary, built with -race) whose very first action is to run the calls
// concurrently from several goroutines released by a barrier. A fresh child
// per history makes every history a first-use trial of the lazily initialised
// state. Race reports are taken from the child's exit status / stderr.

import (
	"bytes"
	"encoding/json"
	"fmt"
	"os"
	"os/exec"
	"sort"
	"strings"
	"sync"
	"testing"

	"github.com/runreveal/pql"
	"github.com/runreveal/pql/parser"
	"pgregory.net/rapid"

	"verif/harness/astx"
	"verif/harness/gen"
	"verif/harness/harn"
)

type histCall struct {
	Kind string `json:"kind"` // compile | parse | scan
	Src  string `json:"src"`
	// Opts: "func" (pql.Compile), "nil", "zero", "empty", "shared" (the shared
	// non-empty map), "own" (a private copy of the shared map)
	Opts string `json:"opts"`
}

type history struct {
	Calls      []histCall        `json:"calls"`
	Shared     map[string]string `json:"shared_params"`
	Goroutines int               `json:"goroutines"`
}

type histResult struct {
	Results     []string          `json:"results"`
	SharedAfter map[string]string `json:"shared_after"`
}

func describeTokens(src string, toks []parser.Token) string {
	var sb strings.Builder
	for _, t := range toks {
		fmt.Fprintf(&sb, "%d%v%q ", t.Kind, t.Span, t.Value)
	}
	return sb.String()
}

func describeParse(stmts []parser.Statement, err error) string {
	var sb strings.Builder
	sb.WriteString(astx.Canon(stmts))
	for _, ns := range astx.AllSpanValues(stmts) {
		fmt.Fprintf(&sb, " %s=%v", ns.Field, ns.Span)
	}
	if err != nil {
		sb.WriteString(" ERR:" + err.Error())
	}
	return sb.String()
}

func runCall(c histCall, shared *pql.CompileOptions) string {
	switch c.Kind {
	case "scan":
		toks := parser.Scan(c.Src)
		d := describeTokens(c.Src, toks)
		// the result is the caller's: what it does with it concerns nobody else
		for i := range toks {
			toks[i] = parser.Token{Kind: parser.TokenError, Value: "scribbled"}
		}
		return d
	case "parse":
		stmts, err := parser.Parse(c.Src)
		d := describeParse(stmts, err)
		for i, st := range stmts {
			switch st := st.(type) {
			case *parser.TabularExpr:
				if st != nil {
					st.Operators = nil
					st.Source = nil
				}
			case *parser.LetStatement:
				if st != nil {
					st.X = nil
					st.Name = nil
				}
			}
			stmts[i] = nil
		}
		return d
	}
	var sql string
	var err error
	switch c.Opts {
	case "func":
		sql, err = pql.Compile(c.Src)
	case "nil":
		sql, err = (*pql.CompileOptions)(nil).Compile(c.Src)
	case "zero":
		sql, err = (&pql.CompileOptions{}).Compile(c.Src)
	case "empty":
		sql, err = (&pql.CompileOptions{Parameters: map[string]string{}}).Compile(c.Src)
	case "shared":
		sql, err = shared.Compile(c.Src)
	case "twin5", "twin6", "twin7", "twin8", "twin9":
		seps := [][2]string{{"=", "\n"}, {"=", "&"}, {"=", ","}, {"\x00", "\x00"}, {"=", ";"}}[int(c.Opts[4]-'5')]
		sql, err = (&pql.CompileOptions{Parameters: mergedTwin(shared.Parameters, seps[0], seps[1])}).Compile(c.Src)
	case "twin0", "twin1", "twin2", "twin3", "twin4":
		sql, err = (&pql.CompileOptions{Parameters: twinMap(shared.Parameters, int(c.Opts[4]-'0'))}).Compile(c.Src)
	default:
		own := &pql.CompileOptions{Parameters: map[string]string{}}
		for k, v := range shared.Parameters {
			own.Parameters[k] = v
		}
		sql, err = own.Compile(c.Src)
	}
	if err != nil {
		return "SQL:" + sql + " ERR:" + err.Error()
	}
	return "SQL:" + sql
}

// twinMap derives from the shared parameter map a different map that is easy
// to confuse with it: the two print alike under fmt's %v, have the same keys
// with the values exchanged, or differ in one entry only.
func twinMap(shared map[string]string, which int) map[string]string {
	keys := make([]string, 0, len(shared))
	for k := range shared {
		keys = append(keys, k)
	}
	sort.Strings(keys)
	out := copyMap(shared)
	if len(keys) < 2 {
		out["zz_extra"] = "$9"
		return out
	}
	k1, k2 := keys[len(keys)-2], keys[len(keys)-1]
	switch which {
	case 0:
		delete(out, k2)
		out[k1] = shared[k1] + " " + k2 + ":" + shared[k2]
	case 1:
		delete(out, k1)
		delete(out, k2)
		out[k1+":"+shared[k1]+" "+k2] = shared[k2]
	case 2:
		out[k1], out[k2] = shared[k2], shared[k1]
	case 3:
		delete(out, k2)
	default:
		out["zz_extra"] = "$9"
	}
	return out
}

// mergedTwin folds the last entry of the map into the value of the one before
// it, written the way a careless serialisation would write the two entries.
func mergedTwin(shared map[string]string, kvSep, entrySep string) map[string]string {
	keys := make([]string, 0, len(shared))
	for k := range shared {
		keys = append(keys, k)
	}
	sort.Strings(keys)
	out := copyMap(shared)
	if len(keys) < 2 {
		out["zz_extra"] = "$9"
		return out
	}
	k1, k2 := keys[len(keys)-2], keys[len(keys)-1]
	delete(out, k2)
	out[k1] = shared[k1] + entrySep + k2 + kvSep + shared[k2]
	return out
}

func copyMap(m map[string]string) map[string]string {
	out := map[string]string{}
	for k, v := range m {
		out[k] = v
	}
	return out
}

// runSequential is the model: every call in isolation, one after the other.
func runSequential(h *history) histResult {
	shared := &pql.CompileOptions{Parameters: copyMap(h.Shared)}
	res := histResult{}
	for _, c := range h.Calls {
		res.Results = append(res.Results, runCall(c, shared))
	}
	res.SharedAfter = shared.Parameters
	return res
}

// runConcurrent spreads the calls over goroutines released together.
func runConcurrent(h *history) histResult {
	shared := &pql.CompileOptions{Parameters: copyMap(h.Shared)}
	res := histResult{Results: make([]string, len(h.Calls))}
	n := max(1, h.Goroutines)
	start := make(chan struct{})
	var wg sync.WaitGroup
	for g := 0; g < n; g++ {
		wg.Add(1)
		go func(g int) {
			defer wg.Done()
			<-start
			for i := g; i < len(h.Calls); i += n {
				res.Results[i] = runCall(h.Calls[i], shared)
			}
		}(g)
	}
	close(start)
	wg.Wait()
	res.SharedAfter = shared.Parameters
	return res
}

// TestC14Child is the child side: history on stdin, results on stdout.
func TestC14Child(t *testing.T) {
	if os.Getenv("VERIF_C14_CHILD") != "1" {
		t.Skip("child mode only")
	}
	var h history
	if err := json.NewDecoder(os.Stdin).Decode(&h); err != nil {
		fmt.Println("{\"error\":\"bad history\"}")
		os.Exit(3)
	}
	res := runConcurrent(&h)
	b, _ := json.Marshal(res)
	fmt.Printf("C14RESULT %s\n", b)
	// let the race runtime set the exit status through the normal test exit
}

type childOutcome struct {
	res    *histResult
	race   bool
	crash  bool
	stderr string
}

func runChild(h *history) (childOutcome, error) {
	self := os.Getenv("VERIF_SELF")
	if self == "" {
		self = os.Args[0]
	}
	cmd := exec.Command(self, "-test.run", "^TestC14Child$", "-test.timeout", "120s")
	cmd.Env = append(os.Environ(), "VERIF_C14_CHILD=1", "VERIF_OUT=", "GORACE=halt_on_error=0 exitcode=66")
	b, _ := json.Marshal(h)
	cmd.Stdin = bytes.NewReader(b)
	var stdout, stderr bytes.Buffer
	cmd.Stdout = &stdout
	cmd.Stderr = &stderr
	err := cmd.Run()
	out := childOutcome{stderr: stderr.String()}
	all := stdout.String() + stderr.String()
	if strings.Contains(all, "WARNING: DATA RACE") {
		out.race = true
	}
	if strings.Contains(all, "fatal error:") || strings.Contains(all, "panic:") {
		out.crash = true
	}
	for _, line := range strings.Split(stdout.String(), "\n") {
		if strings.HasPrefix(line, "C14RESULT ") {
			var r histResult
			if jerr := json.Unmarshal([]byte(strings.TrimPrefix(line, "C14RESULT ")), &r); jerr == nil {
				out.res = &r
			}
		}
	}
	if out.res == nil && !out.race && !out.crash {
		return out, fmt.Errorf("child gave no result (err=%v, stderr=%s)", err, firstLines(stderr.String(), 5))
	}
	return out, nil
}

func mapsEqual(a, b map[string]string) bool {
	if len(a) != len(b) {
		return false
	}
	for k, v := range a {
		if w, ok := b[k]; !ok || w != v {
			return false
		}
	}
	return true
}

// checkHistory is C14's oracle.
func checkHistory(h *history) (msg string, harnessErr string) {
	seq := runSequential(h)
	if !mapsEqual(seq.SharedAfter, h.Shared) {
		return fmt.Sprintf("sequential calls modified the caller's parameter map: %v became %v", h.Shared, seq.SharedAfter), ""
	}
	// equal calls give equal results; nil / zero / empty options are equivalent
	memo := map[string]string{}
	for i, c := range h.Calls {
		key := c.Kind + "|" + c.Src + "|"
		switch c.Opts {
		case "func", "nil", "zero", "empty", "":
			key += "noparams"
		case "shared", "own":
			key += "params"
		default:
			key += c.Opts
		}
		if prev, ok := memo[key]; ok && prev != seq.Results[i] {
			return fmt.Sprintf("call %d (%s, options %q) on %+q gives a different result than an earlier equivalent call:\n earlier: %s\n now:     %s", i, c.Kind, c.Opts, c.Src, prev, seq.Results[i]), ""
		}
		memo[key] = seq.Results[i]
	}
	// the result is a function of the source text and the parameters: the same
	// program with more white space at its end (a text no earlier call has
	// seen) compiles to the same SQL
	for i, c := range h.Calls {
		if c.Kind != "compile" || strings.Contains(seq.Results[i], " ERR:") {
			continue
		}
		c2 := c
		c2.Src = c.Src + "\n" + strings.Repeat(" ", i%7)
		if r := runCall(c2, &pql.CompileOptions{Parameters: copyMap(h.Shared)}); r != seq.Results[i] {
			return fmt.Sprintf("call %d (options %q) on %+q gives a different result than the same program followed by white space, compiled with equal parameters:\n in the history: %s\n on its own:     %s", i, c.Opts, c.Src, seq.Results[i], r), ""
		}
	}
	// a caller may change its parameter map between two calls on the same
	// options value: the later call sees the map as it is then
	{
		opts := &pql.CompileOptions{Parameters: copyMap(h.Shared)}
		seen := map[string]bool{}
		for _, c := range h.Calls {
			if c.Kind != "compile" || seen[c.Src] || len(seen) >= 6 {
				continue
			}
			seen[c.Src] = true
			opts.Compile(c.Src)
			for k, v := range opts.Parameters {
				opts.Parameters[k] = "(" + v + ")"
			}
			got := runCall(histCall{Kind: "compile", Src: c.Src, Opts: "shared"}, opts)
			want := runCall(histCall{Kind: "compile", Src: c.Src, Opts: "shared"}, &pql.CompileOptions{Parameters: copyMap(opts.Parameters)})
			if got != want {
				return fmt.Sprintf("after the caller changed the values of its parameter map in place, a call on the same options value on %+q gives\n %s\nwhile a fresh options value with an equal map gives\n %s", c.Src, got, want), ""
			}
		}
	}
	// a second sequential run (history dependence)
	again := runSequential(h)
	for i := range seq.Results {
		if again.Results[i] != seq.Results[i] {
			return fmt.Sprintf("call %d on %+q gives a different result when the history is repeated:\n first:  %s\n second: %s", i, h.Calls[i].Src, seq.Results[i], again.Results[i]), ""
		}
	}
	out, err := runChild(h)
	if err != nil {
		return "", err.Error()
	}
	if out.race {
		return "the race detector reports a data race when the calls run concurrently in a fresh process:\n" + raceSummary(out.stderr), ""
	}
	if out.crash {
		return "the fresh process running the calls concurrently crashed:\n" + firstLines(out.stderr, 12), ""
	}
	for i := range seq.Results {
		if out.res.Results[i] != seq.Results[i] {
			return fmt.Sprintf("call %d (%s, options %q) on %+q gives a different result when run concurrently in a fresh process:\n isolated:   %s\n concurrent: %s", i, h.Calls[i].Kind, h.Calls[i].Opts, h.Calls[i].Src, seq.Results[i], out.res.Results[i]), ""
		}
	}
	if !mapsEqual(out.res.SharedAfter, h.Shared) {
		return fmt.Sprintf("concurrent calls modified the caller's parameter map: %v became %v", h.Shared, out.res.SharedAfter), ""
	}
	return "", ""
}

func raceSummary(stderr string) string {
	i := strings.Index(stderr, "WARNING: DATA RACE")
	if i < 0 {
		return firstLines(stderr, 20)
	}
	return firstLines(stderr[i:], 30)
}

func init() {
	replayers["history"] = jsonReplayer(func(h history) string {
		msg, herr := checkHistory(&h)
		if herr != "" {
			return "harness: " + herr
		}
		return msg
	})
}

var sharedParamPool = []map[string]string{
	{"p1": "{p1: Int32}", "lim": "{lim: UInt8}"},
	{"p1": "$1", "k": "$2", "n": "{n: Int64}"},
	{"lim": "5"},
	// names no identifier can spell: never referenced, must be harmless
	{"lim": "$1", "p1": "$2", "user id": "$3", "2fa": "$4", "": "$5", "a-b": "$6"},
}

func TestC14Histories(t *testing.T) {
	st := harn.NewStats(env, "histories")
	defer st.Flush()
	rapid.Check(t, func(rt *rapid.T) {
		g := gen.NewG(rt, gen.Cfg{MaxDepth: 2, MaxOps: 3, JoinDepth: 1, Lets: true, Compilable: true, Hostile: true})
		h := &history{Shared: rapid.SampledFrom(sharedParamPool).Draw(rt, "shared"), Goroutines: rapid.IntRange(2, 16).Draw(rt, "goroutines")}
		var names []string
		for n := range h.Shared {
			if n == "p1" || n == "lim" || n == "k" || n == "n" {
				names = append(names, n)
			}
		}
		sort.Strings(names)
		// a pool of sources: lets that shadow shared parameters, built-ins, errors.
		// One binding name is fresh per history: a call that uses it as a column
		// name must not see the value another call's let gave it, however many
		// histories this process has run before.
		fresh := "w" + rapid.StringMatching(`[a-z]{4,8}`).Draw(rt, "freshname")
		var pool []string
		pool = append(pool,
			fmt.Sprintf("let %s = %d; T | where a > %s | take 3", fresh, rapid.IntRange(1, 9).Draw(rt, "freshval"), fresh),
			fmt.Sprintf("T | where %s > 3 | project %s, b | take lim", fresh, fresh))
		if rapid.Bool().Draw(rt, "deeppair") {
			// two deeply nested sources in every other history: several goroutines
			// are inside deep expressions at the same time
			pool = append(pool, "T | where "+strings.Repeat("tolower(", 400)+"b"+strings.Repeat(")", 400)+" == 'x' | count",
				"T | extend d = "+strings.Repeat("(1 + ", 380)+"a"+strings.Repeat(")", 380)+" | take 2")
		}
		for i, n := 0, rapid.IntRange(2, 6).Draw(rt, "npool"); i < n; i++ {
			switch rapid.IntRange(0, 15).Draw(rt, "srckind") {
			case 9:
				// many operators: any limit or table keyed by their number is the
				// same whatever options value the call goes through
				nops := rapid.SampledFrom([]int{15, 17, 33, 63, 64, 65, 66, 100, 129, 260}).Draw(rt, "nops")
				var sb strings.Builder
				sb.WriteString("T")
				for j := 0; j < nops; j++ {
					sb.WriteString(rapid.SampledFrom([]string{" | where a > 1", " | extend c = a + 1", " | take 5", " | project a, b, c = 1", " | summarize a = count() by b", " | sort by a"}).Draw(rt, "longop"))
					if j%9 == 4 && nops%2 == 1 {
						// several operators that each fail for a reason of their own:
						// which error is reported is part of the result
						sb.WriteString(rapid.SampledFrom([]string{" | where not(a, b)", " | where isnull()", " | extend d = strcat()", " | where $left.a == 1", " | extend e = iff(a)"}).Draw(rt, "badop"))
					}
				}
				pool = append(pool, sb.String())
			case 10:
				// deep nesting: several goroutines are inside deep expressions at once
				depth := rapid.SampledFrom([]int{50, 120, 260, 400}).Draw(rt, "nestdepth")
				if rapid.Bool().Draw(rt, "nestcalls") {
					pool = append(pool, "T | where "+strings.Repeat("tolower(", depth)+"b"+strings.Repeat(")", depth)+" == 'x' | count")
				} else {
					pool = append(pool, "T | extend d = "+strings.Repeat("(1 + ", depth)+"a"+strings.Repeat(")", depth)+" | take 2")
				}
			case 7, 8:
				// string literals with backslash escapes, a different one per source
				word := rapid.StringMatching(`[a-z]{3,12}`).Draw(rt, "word")
				pool = append(pool, fmt.Sprintf(`T | where p == "C:\%s\%s	"%s"" and q != '%s's' | project p, s = strcat("\", p, '
%s')`, word, word, word, word, word))
			case 0:
				p := rapid.SampledFrom(names).Draw(rt, "shadowed")
				pool = append(pool, fmt.Sprintf("let %s = %d; T | where a == %s and b < p1 | take lim", p, rapid.IntRange(0, 9).Draw(rt, "v"), p))
			case 1:
				pool = append(pool, "T | where not(isnull(a)) and tolower(b) == strcat('x', c) | summarize n = countif(iff(a > 1, true, false)), count() by now()",
					"T | where not(a) < b | project c = 2 * not(a), d = -isnull(b)",
					"T | summarize n = count() by k | render barchart with (title=\"t\", xcolumn=Loc.State)")
			case 15:
				// misspelt operator names: two different ones and the first again
				pool = append(pool, "T | summarise count() by k", "T | wher a > 1 | project a", "T | projec a", "T | tak 1", "T | sumarize x = count()", "T | joins (U) on k", "T | Where a > 1")
			case 14:
				// misspelt names in let values: the error text is a function of
				// this call's source and parameters, not of earlier failures
				pool = append(pool, "let enabled = True; T | where a == enabled | count", "let n = limt; T | take n", "let m = nul; T | where b == m", "let q = p11; T | take q", "let z = flase; T | where z")
			case 12:
				// the clock is no input: now() is written as SQL's own clock
				pool = append(pool, rapid.SampledFrom([]string{"let t0 = now(); T | where ts > t0 | take 1", "let cutoff = now() - 3600; T | where ts < cutoff | project ts, c = cutoff", "T | extend t = now() | summarize count() by now()"}).Draw(rt, "clocksrc"))
			case 13:
				// a let whose value fails half-way, next to lets that compile
				pool = append(pool, rapid.SampledFrom([]string{"let lo = -floor; T | where a > lo", "let v = (2 - zz_unbound); T | take v", "let w = strcat('a', not(1, 2)); T | where b == w", "let u = -(3 * (4 + nope)); T"}).Draw(rt, "badlet"),
					"let limit = 10; T | where a < limit | project r = a * limit")
			case 11:
				// a built-in's name in another letter case is some other function
				w := rapid.SampledFrom([]string{"Not", "IsNull", "NOT", "Iff", "StrCat", "ToLower", "Count", "isNull", "CountIf", "Now", "IsNotNull", "TOUPPER"}).Draw(rt, "casedbuiltin")
				pool = append(pool, fmt.Sprintf("T | where %s(a) == b | extend c = 2 * %s(a, 1) | summarize %s(b) by k", w, w, w))
			case 2:
				// failures at different stages of a join's compilation, next to
				// joins that compile
				pool = append(pool, rapid.SampledFrom([]string{"T | join kind=bogus (U) on k", "T | join (U) on not(a, b)", "T | join (U | where isnull()) on k", "Logs | join kind=leftouter (Users) on $left.id == $right.id, strcat()"}).Draw(rt, "badjoin"),
					"Events | where a > 1 | join kind=inner (Other | where b < 2) on k | count")
			case 3:
				pool = append(pool, "T | where ( a ) == "+rapid.SampledFrom(names).Draw(rt, "pname")+" | top lim by a")
			case 4:
				// histories travel as JSON: keep sources valid UTF-8
				pool = append(pool, strings.ToValidUTF8(g.MutateBytes(gen.Source(g.Program())), "?"))
			default:
				pool = append(pool, strings.ToValidUTF8(gen.Source(g.Program()), "?"))
			}
		}
		shadow, shadowThenUse := false, false
		for i, n := 0, rapid.IntRange(5, 40).Draw(rt, "ncalls"); i < n; i++ {
			c := histCall{Src: rapid.SampledFrom(pool).Draw(rt, "src")}
			switch rapid.IntRange(0, 9).Draw(rt, "callkind") {
			case 0:
				c.Kind = "parse"
			case 1:
				c.Kind = "scan"
			default:
				c.Kind = "compile"
				c.Opts = rapid.SampledFrom([]string{"func", "nil", "zero", "empty", "shared", "shared", "shared", "own", "twin0", "twin1", "twin2", "twin3", "twin4", "twin5", "twin6", "twin7", "twin8", "twin9"}).Draw(rt, "opts")
			}
			if c.Kind == "compile" && c.Opts == "shared" {
				if strings.HasPrefix(c.Src, "let ") {
					shadow = true
				} else if shadow {
					shadowThenUse = true
				}
			}
			h.Calls = append(h.Calls, c)
		}
		msg, herr := checkHistory(h)
		if herr != "" {
			rt.Fatalf("harness error: %s", herr)
		}
		st.Eval()
		st.Class(fmt.Sprintf("goroutines>=4:%v", h.Goroutines >= 4))
		if shadowThenUse {
			st.Class("let-shadows-shared-parameter-then-later-use")
		}
		if shadowThenUse || h.Goroutines >= 4 {
			b, _ := json.Marshal(h)
			st.NonTrivial(string(b))
			st.SampleHashed("history", string(b), func() any { return h })
		}
		if msg != "" {
			st.Violation(rt, "C14", "history", h, "%s", msg)
		}
	})
}

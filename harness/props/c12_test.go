package props

// C12 — scanning, parsing and compiling are total: no panic, no hang.
//
// Every case runs in a worker subprocess (this test binary re-executed), so a
// non-terminating call can be killed and shrinking never leaves spinning
// goroutines behind. A hang is decided on the worker's CPU clock.

import (
	"bufio"
	"encoding/json"
	"fmt"
	"io"
	"os"
	"os/exec"
	"runtime/debug"
	"strconv"
	"strings"
	"testing"
	"time"

	"github.com/runreveal/pql"
	"github.com/runreveal/pql/parser"
	"pgregory.net/rapid"

	"verif/harness/gen"
	"verif/harness/harn"
)

type totCase struct {
	SrcQ   string            `json:"src_q"` // Go-quoted source (may hold invalid UTF-8)
	Params map[string]string `json:"params,omitempty"`
	// ParamsQ carries parameter maps whose keys/values are not valid UTF-8.
	ParamsQ map[string]string `json:"params_q,omitempty"`
}

func mkTotCase(src string, params map[string]string) totCase {
	c := totCase{SrcQ: strconv.QuoteToASCII(src)}
	if len(params) > 0 {
		c.ParamsQ = map[string]string{}
		for k, v := range params {
			c.ParamsQ[strconv.QuoteToASCII(k)] = strconv.QuoteToASCII(v)
		}
	}
	return c
}

func (c totCase) src() string {
	s, err := strconv.Unquote(c.SrcQ)
	if err != nil {
		return c.SrcQ
	}
	return s
}

func (c totCase) params() map[string]string {
	if len(c.ParamsQ) == 0 {
		return c.Params
	}
	out := map[string]string{}
	for k, v := range c.ParamsQ {
		ku, err1 := strconv.Unquote(k)
		vu, err2 := strconv.Unquote(v)
		if err1 == nil && err2 == nil {
			out[ku] = vu
		}
	}
	return out
}

type totReply struct {
	Panic    string `json:"panic,omitempty"`
	Stage    string `json:"stage,omitempty"`
	Parsed   bool   `json:"parsed"`
	Compiled bool   `json:"compiled"`
	ErrTok   bool   `json:"errtok"`
}

// runTotal executes every entry point on one case, recovering panics.
func runTotal(c totCase) (rep totReply) {
	src := c.src()
	stage := "Scan"
	defer func() {
		if r := recover(); r != nil {
			rep.Panic = fmt.Sprintf("%v\n%s", r, debug.Stack())
			rep.Stage = stage
		}
	}()
	toks := parser.Scan(src)
	for _, t := range toks {
		if t.Kind == parser.TokenError {
			rep.ErrTok = true
		}
	}
	stage = "SplitStatements"
	parser.SplitStatements(src)
	stage = "Parse"
	stmts, err := parser.Parse(src)
	if err == nil {
		rep.Parsed = true
		stage = "Walk"
		for _, st := range stmts {
			parser.Walk(st, func(n parser.Node) bool { return true })
		}
	}
	stage = "Compile"
	_, cerr := pql.Compile(src)
	rep.Compiled = cerr == nil
	stage = "Compile with parameters"
	opts := &pql.CompileOptions{Parameters: c.params()}
	opts.Compile(src)
	return rep
}

// TestC12Worker is the subprocess side: one JSON case per line in, one JSON
// reply per line out.
func TestC12Worker(t *testing.T) {
	if os.Getenv("VERIF_C12_WORKER") != "1" {
		t.Skip("worker mode only")
	}
	// a worker that spins on a non-terminating input must not outlive a test
	// process that the driver had to kill: it ends when it is orphaned
	parent := os.Getppid()
	go func() {
		for {
			time.Sleep(2 * time.Second)
			if os.Getppid() != parent {
				os.Exit(3)
			}
		}
	}()
	in := bufio.NewReaderSize(os.Stdin, 1<<20)
	out := bufio.NewWriter(os.Stdout)
	for {
		line, err := in.ReadBytes('\n')
		if len(line) > 0 {
			var c totCase
			if jerr := json.Unmarshal(line, &c); jerr != nil {
				fmt.Fprintf(out, "{\"panic\":\"worker: bad request\"}\n")
			} else {
				b, _ := json.Marshal(runTotal(c))
				out.Write(b)
				out.WriteByte('\n')
			}
			out.Flush()
		}
		if err != nil {
			break
		}
	}
	os.Exit(0)
}

type worker struct {
	cmd   *exec.Cmd
	in    io.WriteCloser
	lines chan string
}

func startWorker() (*worker, error) {
	self := os.Getenv("VERIF_SELF")
	if self == "" {
		self = os.Args[0]
	}
	cmd := exec.Command(self, "-test.run", "^TestC12Worker$", "-test.timeout", "0")
	// GOMAXPROCS=2 bounds how far parallel GC can inflate CPU time over wall time.
	cmd.Env = append(os.Environ(), "VERIF_C12_WORKER=1", "VERIF_OUT=", "GOMAXPROCS=2")
	in, err := cmd.StdinPipe()
	if err != nil {
		return nil, err
	}
	outp, err := cmd.StdoutPipe()
	if err != nil {
		return nil, err
	}
	cmd.Stderr = io.Discard
	if err := cmd.Start(); err != nil {
		return nil, err
	}
	w := &worker{cmd: cmd, in: in, lines: make(chan string, 1)}
	go func() {
		r := bufio.NewReaderSize(outp, 1<<20)
		for {
			line, err := r.ReadString('\n')
			if strings.HasPrefix(line, "{") {
				w.lines <- line
			}
			if err != nil {
				close(w.lines)
				return
			}
		}
	}()
	return w, nil
}

func (w *worker) kill() {
	w.in.Close()
	w.cmd.Process.Kill()
	w.cmd.Wait()
}

// procCPU reads utime+stime of a process from /proc, in seconds.
func procCPU(pid int) (float64, bool) {
	b, err := os.ReadFile(fmt.Sprintf("/proc/%d/stat", pid))
	if err != nil {
		return 0, false
	}
	s := string(b)
	i := strings.LastIndexByte(s, ')')
	if i < 0 {
		return 0, false
	}
	f := strings.Fields(s[i+1:])
	if len(f) < 13 {
		return 0, false
	}
	ut, _ := strconv.ParseFloat(f[11], 64)
	stt, _ := strconv.ParseFloat(f[12], 64)
	return (ut + stt) / 100.0, true // USER_HZ is 100 on Linux
}

// workerHangCPUSeconds is the CPU budget of one worker case, which runs six
// entry points (three of them parse the source again). Calibration: the
// slowest legitimate 4 KiB input found (4081 unclosed parentheses) costs
// 2.9 s in Parse and 2.4 s in each Compile because error lists are re-joined
// per nesting level: about 8 s wall and at most twice that in CPU.
const workerHangCPUSeconds = 60.0

type totVerdict struct {
	Reply   totReply
	Hung    bool
	Crashed bool
	Inconcl bool
}

type workerPool struct{ w *worker }

// run sends one case to the worker and waits for the verdict.
func (p *workerPool) run(c totCase) totVerdict {
	if p.w == nil {
		w, err := startWorker()
		if err != nil {
			return totVerdict{Inconcl: true}
		}
		p.w = w
	}
	b, _ := json.Marshal(c)
	b = append(b, '\n')
	cpu0, _ := procCPU(p.w.cmd.Process.Pid)
	if _, err := p.w.in.Write(b); err != nil {
		p.w.kill()
		p.w = nil
		return totVerdict{Crashed: true}
	}
	start := time.Now()
	tick := time.NewTicker(100 * time.Millisecond)
	defer tick.Stop()
	for {
		select {
		case line, ok := <-p.w.lines:
			if !ok {
				p.w.kill()
				p.w = nil
				return totVerdict{Crashed: true}
			}
			var rep totReply
			if err := json.Unmarshal([]byte(line), &rep); err != nil {
				return totVerdict{Inconcl: true}
			}
			return totVerdict{Reply: rep}
		case <-tick.C:
			cpu, ok := procCPU(p.w.cmd.Process.Pid)
			if ok && cpu-cpu0 >= workerHangCPUSeconds {
				p.w.kill()
				p.w = nil
				return totVerdict{Hung: true}
			}
			if time.Since(start) > 8*time.Minute {
				p.w.kill()
				p.w = nil
				return totVerdict{Inconcl: true}
			}
		}
	}
}

func (p *workerPool) close() {
	if p.w != nil {
		p.w.kill()
		p.w = nil
	}
}

// checkTotal is the C12 oracle; it returns a message for a violation.
func checkTotal(p *workerPool, c totCase) (msg string, v totVerdict) {
	v = p.run(c)
	switch {
	case v.Hung:
		return fmt.Sprintf("does not return: the worker burnt %.0f CPU-seconds on this input", workerHangCPUSeconds), v
	case v.Crashed:
		return "the worker process died (fatal error, e.g. stack exhaustion) on this input", v
	case v.Reply.Panic != "":
		return fmt.Sprintf("%s panics: %s", v.Reply.Stage, firstLines(v.Reply.Panic, 12)), v
	}
	return "", v
}

func firstLines(s string, n int) string {
	lines := strings.Split(s, "\n")
	if len(lines) > n {
		lines = lines[:n]
	}
	return strings.Join(lines, "\n")
}

func init() {
	replayers["total"] = func(raw json.RawMessage) string {
		var c totCase
		if err := json.Unmarshal(raw, &c); err != nil {
			return "bad replay: " + err.Error()
		}
		p := &workerPool{}
		defer p.close()
		msg, v := checkTotal(p, c)
		if v.Inconcl {
			fmt.Fprintln(os.Stderr, "inconclusive: no verdict from the worker")
			os.Exit(3)
		}
		return msg
	}
}

func totalNonTrivial(src string, v totVerdict) bool {
	return v.Reply.Compiled || v.Reply.ErrTok || strings.ContainsAny(src, "([") || strings.Contains(src, "join")
}

// pathological templates, scaled up to the 4 KiB cap
var pathoUnits = []struct{ open, mid, close string }{
	{"(", "a", ")"}, {"(", "a", ""}, {"", "a", ")"}, {"[", "a", "]"}, {"a[", "1", "]"}, {"f(", "a", ")"}, {"f(", "", ""},
	{"a in (", "1", ")"}, {"-", "a", ""}, {"-(", "a", ")"}, {"+", "1", ""}, {"a + ", "b", ""}, {"a and ", "b", ""}, {"not(", "a", ")"},
	{"iff(a, ", "b", ", c)"}, {"strcat(", "a", ")"}, {"a.", "b", ""}, {"`", "a", "`"}, {"(((a)", "", ""}, {"a == ", "b", ""},
}
var pathoFlat = []string{"|", ";", "!", "'", "\"", "`", "\\", "0x", "1e", ".", ",", "| where", "| join (T) on a", "| count", "T;", "let a = 1;", "//\n", "= ", "\xff", "| as x", "| top 1 by a", "by", "in", "| summarize a,"}

func genTotalCase(rt *rapid.T) (string, map[string]string, string) {
	g := gen.NewG(rt, gen.Cfg{MaxDepth: 3, MaxOps: 4, JoinDepth: 2, Lets: true, Hostile: true})
	var src, class string
	switch k := rapid.IntRange(0, 14).Draw(rt, "class"); {
	case k == 14:
		// a program with one documented misuse planted, cut off after any token
		g2 := gen.NewG(rt, gen.Cfg{MaxDepth: 2, MaxOps: 4, JoinDepth: 2, Lets: true, Compilable: true})
		prog := g2.Program()
		plant(rt, g2, prog, rapid.SampledFrom(plantKinds).Draw(rt, "plant"))
		toks := gen.Print(prog).Toks
		if len(toks) > 1 && rapid.IntRange(0, 3).Draw(rt, "cut") > 0 {
			toks = toks[:rapid.IntRange(1, len(toks)).Draw(rt, "cutat")]
		}
		src, class = gen.Layout(gen.TokensOnly(toks), nil).Src, "planted-misuse-truncated"
	case k == 13:
		// every built-in (and every word the compiler's source mentions: a
		// function a change adds is in there) with every small number of
		// arguments, in every expression position
		names := append([]string{}, gen.BuiltinNames...)
		for _, w := range sourceWords() {
			if len(w) >= 3 && strings.Trim(w, "abcdefghijklmnopqrstuvwxyz_0123456789") == "" && w[0] >= 'a' {
				names = append(names, w)
			}
		}
		name := rapid.SampledFrom(names).Draw(rt, "builtin")
		nargs := rapid.IntRange(0, 5).Draw(rt, "nargs")
		args := make([]string, nargs)
		for i := range args {
			args[i] = rapid.SampledFrom([]string{"a", "1", "'s'", "a > 1", "b", "count()", "$left.a", "isnull()", "not()", "strcat()", "iff(a)", "(isnotnull())"}).Draw(rt, "arg")
		}
		ctx := rapid.SampledFrom([]string{"T | where %s", "T | extend v = %s", "T | summarize %s by k", "T | summarize n = count() by %s", "T | project p = %s", "T | sort by %s", "T | take %s", "T | top 2 by %s", "T | join (U) on %s", "let v = %s; T | where v"}).Draw(rt, "arityctx")
		src, class = fmt.Sprintf(ctx, name+"("+strings.Join(args, ", ")+")"), "builtin-arity"
	case k == 12:
		// long valid pipelines: many operators, many generated subquery names
		nops := rapid.IntRange(5, 150).Draw(rt, "nops")
		var sb strings.Builder
		sb.WriteString("T")
		for j := 0; j < nops && sb.Len() < 4000; j++ {
			sb.WriteString(rapid.SampledFrom([]string{" | where a > 1", " | extend c = a + 1", " | take 5", " | project a, b, c = 1", " | summarize a = count() by b", " | sort by a", " | count", " | join (U | take 1) on a", " | as N", " | top 2 by a"}).Draw(rt, "longop"))
		}
		src, class = sb.String(), "long-pipeline"
	case k == 0:
		src, class = string(rapid.SliceOfN(rapid.Byte(), 0, 200).Draw(rt, "bytes")), "random-bytes"
	case k <= 2:
		n := rapid.IntRange(1, 40).Draw(rt, "npieces")
		var sb strings.Builder
		for i := 0; i < n; i++ {
			sb.WriteString(rapid.SampledFrom(lexPieces).Draw(rt, "piece"))
			if rapid.Bool().Draw(rt, "space") {
				sb.WriteByte(' ')
			}
		}
		src, class = sb.String(), "token-soup"
	case k <= 4:
		prog := g.Program()
		pr := gen.Print(prog)
		src, class = gen.Layout(pr, g.Seps(len(pr.Toks))).Src, "grammar-program"
	case k <= 7:
		prog := g.Program()
		pr := gen.Print(prog)
		if rapid.Bool().Draw(rt, "bytemut") {
			src = g.MutateBytes(gen.Layout(pr, g.Seps(len(pr.Toks))).Src)
		} else {
			toks, _ := g.MutateTokens(pr.Toks)
			src = gen.Layout(gen.TokensOnly(toks), g.Seps(len(toks))).Src
		}
		class = "corrupted-program"
	case k <= 9:
		u := rapid.SampledFrom(pathoUnits).Draw(rt, "unit")
		prefix := rapid.SampledFrom([]string{"T | where ", "T | extend x = ", "T | extend ", "T | summarize count() by ", "T | count; U | where ", "T | summarize ", "T | sort by ", "T | join (U) on ", "let v = ", "T | take ", "T | project a = ", ""}).Draw(rt, "prefix")
		maxN := (4096 - len(prefix)) / max(1, len(u.open)+len(u.close))
		n := rapid.IntRange(1, max(1, maxN)).Draw(rt, "depth")
		if rapid.IntRange(0, 47).Draw(rt, "small") > 0 {
			n = min(n, 1+rapid.IntRange(0, 20).Draw(rt, "smalldepth"))
		}
		closers := n
		switch rapid.IntRange(0, 5).Draw(rt, "unclosed") {
		case 0:
			closers = 0 // nothing is ever closed
		case 1:
			closers = rapid.IntRange(0, n).Draw(rt, "closers")
		}
		src = prefix + strings.Repeat(u.open, n) + u.mid + strings.Repeat(u.close, closers)
		if strings.HasPrefix(prefix, "let") {
			src += "; T"
		}
		class = "nesting"
		if closers < n {
			class = "nesting-unclosed"
		}
	default:
		u := rapid.SampledFrom(pathoFlat).Draw(rt, "flat")
		n := rapid.IntRange(1, 4000/len(u)).Draw(rt, "reps")
		if rapid.IntRange(0, 47).Draw(rt, "fewreps") > 0 {
			n = min(n, 1+rapid.IntRange(0, 30).Draw(rt, "smallreps"))
		}
		sep := rapid.SampledFrom([]string{"", " ", "\n"}).Draw(rt, "flatsep")
		if len(sep) > 0 {
			n = min(n, 4000/(len(u)+len(sep)))
		}
		src = rapid.SampledFrom([]string{"", "T ", "T | where a "}).Draw(rt, "flatprefix") + strings.Repeat(u+sep, n)
		class = "error-cascade"
	}
	if len(src) > 4096 {
		src = src[:4096]
	}
	var params map[string]string
	if rapid.IntRange(0, 2).Draw(rt, "withparams") == 0 {
		params = map[string]string{}
		for i, n := 0, rapid.IntRange(1, 3).Draw(rt, "nparams"); i < n; i++ {
			k := rapid.SampledFrom([]string{"a", "k", "n", "true", "x1", "", "$left", "a b", "\xff"}).Draw(rt, "pname")
			v := rapid.SampledFrom([]string{"{p: Int32}", "$1", "", "(", "-1", "'", "NULL /* x */", "\xff", "1; DROP"}).Draw(rt, "pval")
			params[k] = v
		}
	}
	return src, params, class
}

func TestC12Random(t *testing.T) {
	st := harn.NewStats(env, "random")
	defer st.Flush()
	pool := &workerPool{}
	defer pool.close()
	rapid.Check(t, func(rt *rapid.T) {
		src, params, class := genTotalCase(rt)
		c := mkTotCase(src, params)
		st.Eval()
		st.Class(class)
		msg, v := checkTotal(pool, c)
		if v.Inconcl {
			t.Fatalf("inconclusive: worker gave no verdict")
		}
		if v.Reply.Parsed {
			st.Class("parsed")
		}
		if v.Reply.Compiled {
			st.Class("compiled")
		}
		if totalNonTrivial(src, v) {
			st.NonTrivial(src)
			if len(src) < 200 {
				st.SampleHashed(class, src, func() any { return fmt.Sprintf("%+q", src) })
			}
		}
		if msg != "" {
			st.Violation(rt, "C12", "total", c, "%+q: %s", trunc(src, 300), msg)
		}
	})
}

func trunc(s string, n int) string {
	if len(s) > n {
		return s[:n] + "…"
	}
	return s
}

func TestC12Soups(t *testing.T) {
	st := harn.NewStats(env, "soups")
	defer st.Flush()
	pool := &workerPool{}
	defer pool.close()
	maxLen := env.Pick(3, 5)
	st.SetExhaustive(fmt.Sprintf("all sequences of <= %d tokens over %q spliced into %q", maxLen, soupLarge, soupContexts))
	failed := false
	one := func(soup string, contexts []string) {
		for _, ctx := range contexts {
			if failed {
				return
			}
			src := fmt.Sprintf(ctx, soup)
			c := mkTotCase(src, nil)
			st.Eval()
			msg, v := checkTotal(pool, c)
			if v.Inconcl {
				t.Fatalf("inconclusive: worker gave no verdict")
			}
			if v.Reply.Compiled {
				st.Class("compiled")
			}
			if totalNonTrivial(src, v) {
				st.NonTrivialExact(1)
				st.SampleHashed("soup", src, func() any { return src })
			}
			if msg != "" {
				failed = true
				st.Violation(t, "C12", "total", c, "%+q: %s", src, msg)
			}
		}
	}
	enumSoups(soupLarge, maxLen, env.Shard, env.NShards, func(soup string) { one(soup, soupContexts) })
	enumSoups(soupOps, env.Pick(2, 4), env.Shard, env.NShards, func(soup string) { one(soup, soupOpContexts) })
	nw := enumDictionary(env.Pick(2, 4), env.Shard, env.NShards, func(src string) { one(src, []string{"%s"}) })
	st.Note("plus the source dictionary: each of the %d words found as string literals in the parser and compiler sources followed by every sequence of <= %d tokens over %q, spliced into %q", nw, env.Pick(2, 4), dictTail, dictContexts)
}

// FuzzC12Total: coverage-guided bytes -> (source, one parameter). Runs
// in-process; a panic is reported by the fuzzing engine, a hang by its
// per-input deadlock detection (the driver converts the saved crasher).
func FuzzC12Total(f *testing.F) {
	for _, s := range fuzzSeeds("total") {
		f.Add(s, "a", "{a: Int32}")
	}
	st := harn.NewStats(env, "fuzz")
	f.Fuzz(func(t *testing.T, src, pname, pval string) {
		if len(src) > 1024 {
			return
		}
		c := mkTotCase(src, map[string]string{pname: pval})
		done := make(chan totReply, 1)
		go func() { done <- runTotal(c) }()
		cpu0 := cpuSeconds()
		tick := time.NewTicker(200 * time.Millisecond)
		defer tick.Stop()
		for {
			select {
			case rep := <-done:
				if rep.Panic != "" {
					st.Violation(t, "C12", "total", c, "%+q: %s panics: %s", trunc(src, 300), rep.Stage, firstLines(rep.Panic, 12))
				}
				return
			case <-tick.C:
				if cpuSeconds()-cpu0 >= hangCPUSeconds {
					harn.WriteViolation(env, "C12", "total", c, "does not return")
					t.Errorf("VIOLATION-CANDIDATE C12/total: %+q does not return", trunc(src, 300))
					exitAfterHang()
				}
			}
		}
	})
}

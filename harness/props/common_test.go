package props

import (
	"encoding/json"
	"os"
	"strconv"
	"strings"
	"testing"

	"github.com/runreveal/pql/parser"

	"verif/harness/harn"
	"verif/harness/reftok"
)

var env = harn.GetEnv()

// kindMap translates the scanner's kinds to the reference tokenizer's.
var kindMap = map[parser.TokenKind]reftok.Kind{
	parser.TokenIdentifier: reftok.Ident, parser.TokenQuotedIdentifier: reftok.QIdent, parser.TokenNumber: reftok.Number, parser.TokenString: reftok.String,
	parser.TokenAnd: reftok.And, parser.TokenOr: reftok.Or, parser.TokenPipe: reftok.Pipe, parser.TokenDot: reftok.Dot, parser.TokenComma: reftok.Comma,
	parser.TokenPlus: reftok.Plus, parser.TokenMinus: reftok.Minus, parser.TokenStar: reftok.Star, parser.TokenSlash: reftok.Slash, parser.TokenMod: reftok.Mod,
	parser.TokenAssign: reftok.Assign, parser.TokenEq: reftok.Eq, parser.TokenNE: reftok.NE, parser.TokenLT: reftok.LT, parser.TokenLE: reftok.LE, parser.TokenGT: reftok.GT,
	parser.TokenGE: reftok.GE, parser.TokenCaseInsensitiveEq: reftok.CIEq, parser.TokenCaseInsensitiveNE: reftok.CINE, parser.TokenLParen: reftok.LParen,
	parser.TokenRParen: reftok.RParen, parser.TokenLBracket: reftok.LBracket, parser.TokenRBracket: reftok.RBracket, parser.TokenIn: reftok.In, parser.TokenBy: reftok.By,
	parser.TokenSemi: reftok.Semi, parser.TokenError: reftok.Error,
}

// alphabet27 is the representative alphabet of the exhaustive lexer passes:
// letters that matter to number syntax (e, x, a as hex digit), digits, every
// quote, backslash, newline, space, comment/operator look-ahead characters,
// semicolon, brackets, identifier specials, a multi-byte rune and an invalid
// UTF-8 byte.
var alphabet27 = []string{"a", "e", "x", "0", "1", "9", ".", "+", "-", "'", "\"", "`", "\\", "\n", " ", "/", "!", "=", "~", "<", ";", "(", "[", "$", "_", "é", "\xff"}

// alphabetB complements alphabet27: the upper-case spellings the number
// syntax knows (E, X), a hex-only letter, the remaining operator and bracket
// characters, further white space, and runes of 2, 3 and 4 bytes plus a
// truncated one.
var alphabetB = []string{"E", "X", "f", "7", "0", ".", ";", "'", ">", "*", "%", ",", ")", "]", "|", "\t", "\r", "Z", "-", "ü", "€", "😀", "\xc3", "\xa0", " ", "\ufffd"}

// enumStrings calls f for every string over alphabet of length 1..maxLen whose
// two-symbol prefix is assigned to this shard (strings of length < 2 belong to
// shard 0; the empty string too).
func enumStrings(alphabet []string, maxLen int, shard, nshards int, f func(s string)) {
	if shard == 0 {
		f("")
		for _, a := range alphabet {
			f(a)
		}
	}
	if maxLen < 2 {
		return
	}
	var rec func(prefix string, depth int)
	rec = func(prefix string, depth int) {
		f(prefix)
		if depth == 0 {
			return
		}
		for _, a := range alphabet {
			rec(prefix+a, depth-1)
		}
	}
	k := 0
	for _, a := range alphabet {
		for _, b := range alphabet {
			if k%nshards == shard {
				rec(a+b, maxLen-2)
			}
			k++
		}
	}
}

// replayers maps a replay kind to the oracle that understands the case.
var replayers = map[string]func(raw json.RawMessage) string{}

// TestReplay feeds a saved case straight to its oracle, bypassing rapid.
func TestReplay(t *testing.T) {
	if os.Getenv("VERIF_REPLAY") == "" {
		t.Skip("VERIF_REPLAY not set")
	}
	r, err := harn.LoadReplay()
	if err != nil {
		t.Fatalf("load replay: %v", err)
	}
	f, ok := replayers[r.Kind]
	if !ok {
		t.Fatalf("no oracle for replay kind %q", r.Kind)
	}
	if msg := f(r.Case); msg != "" {
		harn.WriteViolation(env, r.Property, r.Kind, json.RawMessage(r.Case), msg)
		t.Fatalf("VIOLATION-CANDIDATE %s/%s: %s", r.Property, r.Kind, msg)
	}
}

// strCase is the replay payload of all checks whose input is one string.
type strCase struct {
	Src string `json:"src"`
	// SrcQ is the Go-quoted form (sources may contain invalid UTF-8, which
	// JSON cannot carry); it wins when present.
	SrcQ string `json:"src_q,omitempty"`
}

func mkStrCase(s string) strCase {
	return strCase{Src: strings.ToValidUTF8(s, "\uFFFD"), SrcQ: strconv.QuoteToASCII(s)}
}

func (c strCase) get() string {
	if c.SrcQ != "" {
		if s, err := strconv.Unquote(c.SrcQ); err == nil {
			return s
		}
	}
	return c.Src
}

func strReplayer(check func(src string) string) func(raw json.RawMessage) string {
	return func(raw json.RawMessage) string {
		var c strCase
		if err := json.Unmarshal(raw, &c); err != nil {
			return "bad replay case: " + err.Error()
		}
		return check(c.get())
	}
}

// jsonReplayer adapts an oracle over a JSON-decodable case type.
func jsonReplayer[T any](check func(c T) string) func(raw json.RawMessage) string {
	return func(raw json.RawMessage) string {
		var c T
		if err := json.Unmarshal(raw, &c); err != nil {
			return "bad replay case: " + err.Error()
		}
		return check(c)
	}
}

package props

// C02 — tabular operators take effect strictly in pipeline order.
// C03 — joins combine the pipeline so far with the right-hand pipeline.

import (
	"fmt"
	"strings"
	"testing"

	"pgregory.net/rapid"

	"verif/harness/gen"
	"verif/harness/harn"
	"verif/harness/prim"
)

func init() {
	replayers["eval"] = jsonReplayer(func(c evalCase) string {
		msg, info := checkEval(&c)
		if info.HarnessError != "" {
			return "harness: " + info.HarnessError
		}
		return msg
	})
}

func kindsOf(t *gen.Tabular) []string {
	var out []string
	for _, op := range t.Ops {
		out = append(out, gen.OpKind(op))
	}
	return out
}

// pipelineNonTrivial implements C02's rule on the operator sequence and the
// database.
func pipelineNonTrivial(t *gen.Tabular, db map[string]*gen.TableData, info evalInfo) bool {
	kinds := kindsOf(t)
	interesting := false
	sorts, takes := 0, 0
	nameChanged := false
	for i, k := range kinds {
		switch k {
		case "sort":
			sorts++
			if nameChanged {
				interesting = true
			}
		case "take", "top":
			takes++
			for _, j := range []int{i - 1, i + 1} {
				if j >= 0 && j < len(kinds) {
					switch kinds[j] {
					case "sort", "where", "project", "summarize", "extend", "top", "take":
						interesting = true
					}
				}
			}
			if k == "top" {
				sorts++
			}
		case "project", "summarize", "count":
			nameChanged = true
		case "render", "as":
			if i+1 < len(kinds) {
				interesting = true
			}
		}
	}
	if sorts >= 2 || takes >= 2 {
		interesting = true
	}
	if !interesting {
		return false
	}
	// database: non-empty source with a tie or a NULL
	src := db[t.Table.Name]
	if src == nil || len(src.Rows) == 0 {
		return false
	}
	seen := map[string]bool{}
	for _, r := range src.Rows {
		for ci, v := range r {
			if v == nil {
				return true
			}
			key := fmt.Sprint(ci, prim.Show(v))
			if seen[key] {
				return true
			}
			seen[key] = true
		}
	}
	return false
}

func runEvalCase(st *harn.Stats, rt harn.Failer, property string, c *evalCase, query *gen.Tabular, nontrivial func(evalInfo) bool, classes []string) {
	msg, info := checkEval(c)
	if info.HarnessError != "" {
		rt.Fatalf("harness error on %s: %s", c.Src, info.HarnessError)
	}
	st.Eval()
	for _, cl := range classes {
		st.Class(cl)
	}
	if info.Skipped != "" {
		st.Class("skipped:" + strings.SplitN(info.Skipped, ":", 2)[0])
		return
	}
	if info.TieTolerant {
		st.Class("accepted-tie-tolerant")
	}
	if info.OrderChecked {
		st.Class("row-order-checked")
	} else {
		st.Class("rows-as-multiset")
	}
	if info.ResultRows > 0 {
		st.Class("non-empty-result")
	}
	if strings.HasPrefix(info.SQL, "WITH") {
		st.Class("sql-with-ctes")
	}
	if nontrivial(info) {
		st.NonTrivial(gen.Shape(query) + "|" + strings.Join(kindsOf(query), ","))
		st.SampleHashed(strings.Join(kindsOf(query), ","), c.Src, func() any { return map[string]any{"pql": c.Src, "sql": info.SQL} })
	}
	if msg != "" {
		st.Violation(rt, property, "eval", c, "%s\n%s", c.Src, msg)
	}
}

// allKindSequences enumerates every sequence of operator kinds of length 1..n.
func allKindSequences(kinds []string, n int) [][]string {
	var out [][]string
	var rec func(prefix []string)
	rec = func(prefix []string) {
		if len(prefix) > 0 {
			out = append(out, append([]string{}, prefix...))
		}
		if len(prefix) == n {
			return
		}
		for _, k := range kinds {
			rec(append(prefix, k))
		}
	}
	rec(nil)
	return out
}

var nonJoinKinds = []string{"where", "project", "extend", "summarize", "sort", "take", "top", "count", "as", "render"}

// TestC02Sequences: every sequence of the ten non-join operator kinds (joins
// are C03's) of length <= 3 (thorough 4), a few argument/database draws each
// (-rapid.checks).
func TestC02Sequences(t *testing.T) {
	st := harn.NewStats(env, "sequences")
	defer st.Flush()
	maxLen := env.Pick(3, 4)
	seqs := allKindSequences(nonJoinKinds, maxLen)
	st.SetExhaustive(fmt.Sprintf("all %d sequences of length <= %d over the ten non-join operator kinds (operator kinds only: arguments and databases are sampled)", len(seqs), maxLen))
	for i, seq := range seqs {
		if i%env.NShards != env.Shard {
			continue
		}
		seq := seq
		rapid.Check(t, func(rt *rapid.T) {
			g := gen.NewG(rt, gen.Cfg{})
			tenv := &gen.TEnv{Base: gen.StdSchemas}
			db := gen.GenDB(rt, gen.StdSchemas, []string{"A"})
			q, _, applied := g.TypedSequence("A", gen.StdSchemas["A"], seq, tenv, 0)
			if applied != len(seq) {
				// e.g. a sort after count has nothing sortable: kinds skipped
				st.Class("sequence-partially-applicable")
			}
			prog := &gen.Program{Stmts: []gen.Stmt{q}}
			c := mkEvalCase(prog, db, nil)
			runEvalCase(st, rt, "C02", c, q, func(info evalInfo) bool { return pipelineNonTrivial(q, db, info) }, []string{"len:" + fmt.Sprint(len(q.Ops))})
		})
		if t.Failed() {
			return
		}
	}
}

// TestC02Random: random operator sequences up to length 8 with repetition.
func TestC02Random(t *testing.T) {
	st := harn.NewStats(env, "random")
	defer st.Flush()
	rapid.Check(t, func(rt *rapid.T) {
		g := gen.NewG(rt, gen.Cfg{})
		tenv := &gen.TEnv{Base: gen.StdSchemas}
		db := gen.GenDB(rt, gen.StdSchemas, []string{"A"})
		n := rapid.IntRange(1, 8).Draw(rt, "len")
		if rapid.IntRange(0, 14).Draw(rt, "longpipeline") == 0 {
			// long pipelines: two-digit subquery numbers, many repetitions
			n = rapid.IntRange(10, 30).Draw(rt, "longlen")
		}
		var kinds []string
		for i := 0; i < n; i++ {
			kinds = append(kinds, rapid.SampledFrom(nonJoinKinds).Draw(rt, "kind"))
		}
		tenv.RepeatOps = true
		q, _, _ := g.TypedSequence("A", gen.StdSchemas["A"], kinds, tenv, 0)
		prog := &gen.Program{Stmts: []gen.Stmt{q}}
		c := mkEvalCase(prog, db, nil)
		runEvalCase(st, rt, "C02", c, q, func(info evalInfo) bool { return pipelineNonTrivial(q, db, info) }, []string{"len:" + fmt.Sprint(len(q.Ops))})
	})
}

// ---- C03 ----

type joinStats struct {
	joins, nested, leftOps, rightOps int
	kinds                            map[string]bool
	afterJoin                        bool
	readsNamed                       bool
}

func joinShape(t *gen.Tabular, depth int, js *joinStats) {
	for i, op := range t.Ops {
		j, ok := op.(*gen.Join)
		if !ok {
			continue
		}
		js.joins++
		if depth > 0 {
			js.nested++
		}
		k := j.Kind
		if k == "" {
			k = "default"
		}
		js.kinds[k] = true
		js.leftOps += i
		js.rightOps += len(j.Right.Ops)
		if i+1 < len(t.Ops) {
			js.afterJoin = true
		}
		if strings.HasPrefix(j.Right.Table.Name, "N") {
			js.readsNamed = true
		}
		joinShape(j.Right, depth+1, js)
	}
}

// joinDistinguishable: the left input of some join has duplicate rows (inner
// vs innerunique differ) or an unmatched row may exist; approximated on the
// base tables: duplicates or a NULL/unmatched key in A.
func dbDistinguishes(db map[string]*gen.TableData) bool {
	a := db["A"]
	if a == nil || len(a.Rows) == 0 {
		return false
	}
	seen := map[string]bool{}
	for _, r := range a.Rows {
		k := prim.Key(r)
		if seen[k] {
			return true
		}
		seen[k] = true
		if r[0] == nil {
			return true
		}
	}
	bk := map[string]bool{}
	if b := db["B"]; b != nil {
		for _, r := range b.Rows {
			bk[prim.Show(r[0])] = true
		}
	}
	for _, r := range a.Rows {
		if !bk[prim.Show(r[0])] {
			return true
		}
	}
	return false
}

func TestC03Joins(t *testing.T) {
	st := harn.NewStats(env, "joins")
	defer st.Flush()
	rapid.Check(t, func(rt *rapid.T) {
		g := gen.NewG(rt, gen.Cfg{})
		tenv := &gen.TEnv{Base: gen.StdSchemas, JoinTables: []string{"B", "C"}}
		if rapid.Bool().Draw(rt, "bfirst") {
			tenv.JoinTables = []string{"C", "B"}
		}
		db := gen.GenDB(rt, gen.StdSchemas, []string{"A", "B", "C"})
		// One program in six has `let k = <n>` in front: a bare join key `on k`
		// still means $left.k == $right.k (the documented meaning of a bare
		// name after `on`); every other reference to column k is then written
		// in backticks.
		shadowKey := rapid.IntRange(0, 5).Draw(rt, "shadowkey") == 0
		if shadowKey {
			tenv.ForceQuote = map[string]bool{"k": true}
		}
		depth := env.Pick(2, 3)
		// left prefix, a join, then more operators (possibly more joins)
		var kinds []string
		for i, n := 0, rapid.IntRange(0, 3).Draw(rt, "prefix"); i < n; i++ {
			kinds = append(kinds, rapid.SampledFrom(nonJoinKinds).Draw(rt, "kind"))
		}
		kinds = append(kinds, "join")
		for i, n := 0, rapid.IntRange(0, 3).Draw(rt, "suffix"); i < n; i++ {
			kinds = append(kinds, rapid.SampledFrom(gen.OpKinds).Draw(rt, "kind"))
		}
		switch rapid.IntRange(0, 11).Draw(rt, "scenario") {
		case 0:
			// a row limit between two joins
			kinds = append([]string{"join"}, rapid.SampledFrom([][]string{{"top"}, {"take"}, {"sort", "take"}, {"top", "where"}}).Draw(rt, "between")...)
			kinds = append(kinds, "join")
		case 1:
			// the result is named like a stored table and joined again
			kinds = []string{"join", "as", "join", rapid.SampledFrom(nonJoinKinds).Draw(rt, "after")}
		}
		q := &gen.Tabular{Table: gen.ColIdent("A")}
		s := gen.StdSchemas["A"]
		for _, k := range kinds {
			op, ns, ok := g.TypedOp(k, s, tenv, depth)
			if !ok {
				continue
			}
			q.Ops = append(q.Ops, op)
			if as, isAs := op.(*gen.As); isAs {
				if tenv.Named == nil {
					tenv.Named = map[string]gen.Schema{}
				}
				tenv.Named[as.Name.Name] = s
				if rapid.Bool().Draw(rt, "reuseas") {
					tenv.JoinTables = append([]string{as.Name.Name}, tenv.JoinTables...)
				}
			}
			s = ns
		}
		js := &joinStats{kinds: map[string]bool{}}
		joinShape(q, 0, js)
		prog := &gen.Program{Stmts: []gen.Stmt{q}}
		classes := []string{fmt.Sprintf("joins:%d", js.joins)}
		if shadowKey {
			prog.Stmts = []gen.Stmt{&gen.Let{Name: gen.Ident{Name: "k"}, X: &gen.Num{Text: fmt.Sprint(rapid.IntRange(0, 3).Draw(rt, "kval"))}}, q}
			classes = append(classes, "let-named-like-the-join-key")
		}
		c := mkEvalCase(prog, db, nil)
		if js.nested > 0 {
			classes = append(classes, "nested-join")
		}
		if js.leftOps > 0 && js.rightOps > 1 {
			classes = append(classes, "prefix-and-multi-op-right-side")
		}
		if js.afterJoin {
			classes = append(classes, "operators-after-join")
		}
		if js.readsNamed {
			classes = append(classes, "right-side-reads-as-name")
		}
		for k := range js.kinds {
			classes = append(classes, "kind:"+k)
		}
		nontrivial := func(info evalInfo) bool {
			return js.joins > 0 && dbDistinguishes(db) && (js.leftOps > 0 && js.rightOps > 1 || js.nested > 0 || js.joins >= 2)
		}
		runEvalCase(st, rt, "C03", c, q, nontrivial, classes)
	})
}

package props

// C13 — Compile returns SQL or an error, and rejects every documented misuse.

import (
	"fmt"
	"strings"
	"testing"

	"github.com/runreveal/pql"
	"github.com/runreveal/pql/parser"
	"pgregory.net/rapid"

	"verif/harness/gen"
	"verif/harness/harn"
)

type ruleCase struct {
	strCase
	Params map[string]string `json:"params,omitempty"`
	// Expect: "compile" (rule-abiding program), "reject" (one planted rule
	// violation) or "" (either/or contract only).
	Expect string `json:"expect"`
	Rule   string `json:"rule,omitempty"`
}

func checkRules(c ruleCase) string {
	src := c.get()
	var opts *pql.CompileOptions
	if len(c.Params) > 0 {
		opts = &pql.CompileOptions{Parameters: c.Params}
	}
	r := safeCompile(src, opts)
	switch {
	case r.Hung:
		return "Compile does not return"
	case r.Inconcl:
		return "" // no verdict; the driver treats the missing result as inconclusive elsewhere
	case r.Panic != "":
		return "Compile panics: " + firstLines(r.Panic, 8)
	}
	if !((r.SQL != "" && r.Err == nil) || (r.SQL == "" && r.Err != nil)) {
		return fmt.Sprintf("Compile returned sql=%q together with err=%v: neither SQL-with-nil-error nor empty-with-error", r.SQL, r.Err)
	}
	switch c.Expect {
	case "compile":
		if r.Err != nil {
			return fmt.Sprintf("a program that breaks none of the documented rules does not compile: %v", r.Err)
		}
	case "reject":
		if r.Err == nil {
			return fmt.Sprintf("a program that breaks the rule %q compiles\nsql: %s", c.Rule, r.SQL)
		}
	}
	if r.Err == nil {
		if _, perr := parser.Parse(src); perr != nil {
			return fmt.Sprintf("Compile succeeds although the parser rejects the source: %v\nsql: %s", firstLine(perr.Error()), r.SQL)
		}
		// "fails when the source does not parse": a source whose tokens the
		// parsed tree does not account for has not been parsed (C08's criterion)
		if msg, _, _ := checkAccept(src); msg != "" {
			return fmt.Sprintf("Compile succeeds although the source does not parse as a whole: %s\nsql: %s", msg, r.SQL)
		}
	}
	return ""
}

func init() {
	replayers["rules"] = jsonReplayer(checkRules)
}

// slot is a place in a program where an expression sits.
type slot struct {
	set    func(gen.Expr)
	get    gen.Expr
	inJoin bool // inside a join condition
	inLet  bool // inside a let value (before the query)
	depth  int
}

func exprSlots(x gen.Expr, set func(gen.Expr), inJoin, inLet bool, depth int, out *[]slot) {
	*out = append(*out, slot{set: set, get: x, inJoin: inJoin, inLet: inLet, depth: depth})
	switch x := x.(type) {
	case *gen.Unary:
		exprSlots(x.X, func(e gen.Expr) { x.X = e }, inJoin, inLet, depth+1, out)
	case *gen.Binary:
		exprSlots(x.X, func(e gen.Expr) { x.X = e }, inJoin, inLet, depth+1, out)
		exprSlots(x.Y, func(e gen.Expr) { x.Y = e }, inJoin, inLet, depth+1, out)
	case *gen.In:
		exprSlots(x.X, func(e gen.Expr) { x.X = e }, inJoin, inLet, depth+1, out)
		for i := range x.Vals {
			i := i
			exprSlots(x.Vals[i], func(e gen.Expr) { x.Vals[i] = e }, inJoin, inLet, depth+1, out)
		}
	case *gen.Paren:
		exprSlots(x.X, func(e gen.Expr) { x.X = e }, inJoin, inLet, depth+1, out)
	case *gen.Index:
		exprSlots(x.X, func(e gen.Expr) { x.X = e }, inJoin, inLet, depth+1, out)
		exprSlots(x.I, func(e gen.Expr) { x.I = e }, inJoin, inLet, depth+1, out)
	case *gen.Call:
		for i := range x.Args {
			i := i
			exprSlots(x.Args[i], func(e gen.Expr) { x.Args[i] = e }, inJoin, inLet, depth+1, out)
		}
	}
}

func tabularSlots(t *gen.Tabular, depth int, out *[]slot) {
	cols := func(cs []*gen.Col) {
		for _, c := range cs {
			c := c
			if c.X != nil {
				exprSlots(c.X, func(e gen.Expr) { c.X = e }, false, false, depth, out)
			}
		}
	}
	for _, op := range t.Ops {
		switch op := op.(type) {
		case *gen.Where:
			exprSlots(op.Pred, func(e gen.Expr) { op.Pred = e }, false, false, depth, out)
		case *gen.Project:
			cols(op.Cols)
		case *gen.Extend:
			cols(op.Cols)
		case *gen.Summarize:
			cols(op.Cols)
			cols(op.By)
		case *gen.Sort:
			for _, tm := range op.Terms {
				tm := tm
				exprSlots(tm.X, func(e gen.Expr) { tm.X = e }, false, false, depth, out)
			}
		case *gen.Take:
			exprSlots(op.N, func(e gen.Expr) { op.N = e }, false, false, depth, out)
		case *gen.Top:
			exprSlots(op.N, func(e gen.Expr) { op.N = e }, false, false, depth, out)
			exprSlots(op.Term.X, func(e gen.Expr) { op.Term.X = e }, false, false, depth, out)
		case *gen.Join:
			for i := range op.Conds {
				i := i
				exprSlots(op.Conds[i], func(e gen.Expr) { op.Conds[i] = e }, true, false, depth, out)
			}
			tabularSlots(op.Right, depth+1, out)
		}
		// render property values are not compiled as expressions: no slots
	}
}

// programSlots lists the expression slots of the lets before the query and of
// the query itself.
func programSlots(p *gen.Program) []slot {
	var out []slot
	seenQuery := false
	for _, s := range p.Stmts {
		switch s := s.(type) {
		case *gen.Let:
			if !seenQuery {
				s := s
				exprSlots(s.X, func(e gen.Expr) { s.X = e }, false, true, 0, &out)
			}
		case *gen.Tabular:
			if !seenQuery {
				tabularSlots(s, 0, &out)
			}
			seenQuery = true
		}
	}
	return out
}

// wrongArity builds a built-in call with a wrong number of arguments; the
// original expression is kept as an argument where possible.
func wrongArity(rt *rapid.T, orig gen.Expr) (gen.Expr, string) {
	name := rapid.SampledFrom(gen.BuiltinNames).Draw(rt, "badbuiltin")
	right := gen.Builtins[name]
	var cands []int
	for n := 0; n <= 4; n++ {
		if right >= 0 && n != right || right < 0 && n == 0 {
			cands = append(cands, n)
		}
	}
	n := rapid.SampledFrom(cands).Draw(rt, "badarity")
	if right >= 0 && rapid.IntRange(0, 7).Draw(rt, "hugearity") == 0 {
		// argument counts that equal the right one modulo a power of two
		wraps := []int{256, 512}
		if env.Thorough() {
			wraps = append(wraps, 65536)
		}
		n = rapid.SampledFrom(wraps).Draw(rt, "aritywrap") + right
	}
	c := &gen.Call{Func: name}
	for i := 0; i < n; i++ {
		if i == 0 {
			c.Args = append(c.Args, orig)
		} else {
			c.Args = append(c.Args, &gen.Num{Text: fmt.Sprint(i)})
		}
	}
	return c, fmt.Sprintf("%s with %d argument(s)", name, n)
}

var plantKinds = []string{"no-query", "two-queries", "let-unbound", "let-quoted", "let-qualified", "arity", "left-outside-join", "right-outside-join", "join-kind", "rowcount-float", "rowcount-string"}

// plant applies one rule violation to a freshly generated, rule-abiding
// program. ok=false: not applicable to this program.
func plant(rt *rapid.T, g *gen.G, p *gen.Program, kind string) (desc string, placement string, ok bool) {
	queryIdx := -1
	for i, s := range p.Stmts {
		if _, isT := s.(*gen.Tabular); isT && queryIdx < 0 {
			queryIdx = i
		}
	}
	if queryIdx < 0 {
		return "", "", false
	}
	query := p.Stmts[queryIdx].(*gen.Tabular)
	slots := programSlots(p)
	pickSlot := func(pred func(slot) bool) (slot, bool) {
		var cands []slot
		for _, s := range slots {
			if pred(s) {
				cands = append(cands, s)
			}
		}
		if len(cands) == 0 {
			return slot{}, false
		}
		return cands[rapid.IntRange(0, len(cands)-1).Draw(rt, "slot")], true
	}
	place := func(s slot) string {
		where := "query"
		if s.inLet {
			where = "let"
		} else if s.inJoin {
			where = "join-condition"
		}
		return fmt.Sprintf("%s,depth=%d", where, min(s.depth, 3))
	}
	switch kind {
	case "no-query":
		p.Stmts = append(p.Stmts[:queryIdx], p.Stmts[queryIdx+1:]...)
		// drop lets after the (removed) query too if nothing is left? keep: lets only
		return "no tabular statement", "program", true
	case "two-queries":
		second := g.Tabular(0)
		pos := rapid.IntRange(queryIdx+1, len(p.Stmts)).Draw(rt, "secondpos")
		p.Stmts = append(p.Stmts[:pos], append([]gen.Stmt{second}, p.Stmts[pos:]...)...)
		p.EmptyBefore = nil
		return "more than one tabular statement", "program", true
	case "let-unbound", "let-quoted", "let-qualified":
		var bad gen.Expr
		switch kind {
		case "let-unbound":
			bad = gen.ID("zz_unbound")
		case "let-quoted":
			bad = &gen.QIdent{Parts: []gen.Ident{{Name: "n", Quoted: true}}}
		default:
			bad = &gen.QIdent{Parts: []gen.Ident{{Name: "t"}, {Name: "c"}}}
		}
		s, found := pickSlot(func(s slot) bool { return s.inLet })
		if !found {
			// add a let before the query whose value holds the identifier at depth 1
			l := &gen.Let{Name: gen.Ident{Name: "Lbad"}, X: &gen.Binary{Op: "+", X: &gen.Num{Text: "1"}, Y: bad}}
			p.Stmts = append(append(append([]gen.Stmt{}, p.Stmts[:queryIdx]...), l), p.Stmts[queryIdx:]...)
			p.EmptyBefore = nil
			return kind, "let,depth=1", true
		}
		s.set(bad)
		return kind, place(s), true
	case "arity":
		s, found := pickSlot(func(s slot) bool { return true })
		if !found {
			return "", "", false
		}
		bad, d := wrongArity(rt, s.get)
		if !s.inLet && rapid.IntRange(0, 4).Draw(rt, "deadbranch") == 0 {
			// the misuse sits in the branch of an iff that a constant binding
			// never selects: it is a misuse all the same
			val := rapid.SampledFrom([]string{"true", "false"}).Draw(rt, "deadcond")
			l := &gen.Let{Name: gen.Ident{Name: "Ldead"}, X: gen.ID(val)}
			p.Stmts = append([]gen.Stmt{l}, p.Stmts...)
			p.EmptyBefore = nil
			args := []gen.Expr{gen.ID("Ldead"), s.get, bad}
			if val == "false" {
				args = []gen.Expr{gen.ID("Ldead"), bad, s.get}
			}
			s.set(&gen.Call{Func: rapid.SampledFrom([]string{"iff", "iif"}).Draw(rt, "deadiff"), Args: args})
			return "built-in arity in a branch a constant never selects: " + d, place(s), true
		}
		s.set(bad)
		return "built-in arity: " + d, place(s), true
	case "left-outside-join", "right-outside-join":
		side := "$left"
		if kind == "right-outside-join" {
			side = "$right"
		}
		s, found := pickSlot(func(s slot) bool { return !s.inJoin })
		if !found {
			return "", "", false
		}
		// every shape of reference: leading qualifier, bare, trailing, middle part
		shape := rapid.SampledFrom([]string{"side.c", "side", "c.side", "t.side.c"}).Draw(rt, "sideshape")
		var parts []gen.Ident
		switch shape {
		case "side.c":
			parts = []gen.Ident{{Name: side}, {Name: "c"}}
		case "side":
			parts = []gen.Ident{{Name: side}}
		case "c.side":
			parts = []gen.Ident{{Name: "c"}, {Name: side}}
		default:
			parts = []gen.Ident{{Name: "t"}, {Name: side}, {Name: "c"}}
		}
		s.set(&gen.QIdent{Parts: parts})
		return side + " outside a join condition (written as " + strings.ReplaceAll(shape, "side", side) + ")", place(s), true
	case "join-kind":
		var joins []*gen.Join
		gen.WalkTabular(query, func(_ *gen.Tabular, op gen.Op) {
			if j, ok := op.(*gen.Join); ok {
				joins = append(joins, j)
			}
		})
		if len(joins) == 0 {
			return "", "", false
		}
		j := joins[rapid.IntRange(0, len(joins)-1).Draw(rt, "whichjoin")]
		j.Kind = rapid.SampledFrom([]string{"outer", "left", "innerr", "Inner", "fullouter", "rightouter", "anti"}).Draw(rt, "badkind")
		return "unknown join kind " + j.Kind, "join", true
	case "rowcount-float", "rowcount-string":
		var bad gen.Expr = &gen.Num{Text: rapid.SampledFrom([]string{"1.5", ".5", "1e3", "2.", "0.0", "0E5", "00E3", "0E+2", "0e0", "1E3", "0.", "0E-1"}).Draw(rt, "floatcount")}
		if kind == "rowcount-string" {
			bad = g.StrLit()
		}
		var sets []func()
		gen.WalkTabular(query, func(_ *gen.Tabular, op gen.Op) {
			switch op := op.(type) {
			case *gen.Take:
				sets = append(sets, func() { op.N = bad })
			case *gen.Top:
				sets = append(sets, func() { op.N = bad })
			}
		})
		if len(sets) == 0 {
			query.Ops = append(query.Ops, &gen.Take{N: bad})
			return kind, "appended take", true
		}
		sets[rapid.IntRange(0, len(sets)-1).Draw(rt, "whichcount")]()
		return kind, "take/top", true
	}
	return "", "", false
}

func TestC13Rules(t *testing.T) {
	st := harn.NewStats(env, "rules")
	defer st.Flush()
	rapid.Check(t, func(rt *rapid.T) {
		g := gen.NewG(rt, gen.Cfg{MaxDepth: 3, MaxOps: 4, JoinDepth: 2, Lets: true, Compilable: true})
		prog := g.Program()
		params := rapid.SampledFrom(append(append([]map[string]string{}, benignParams...), map[string]string{"L1": "", "a": "", "n": " "}, map[string]string{"k": "", "T": ""})).Draw(rt, "params")
		basePr := gen.Print(prog)
		base := gen.Layout(basePr, g.Seps(len(basePr.Toks))).Src
		st.Eval()
		st.Class("rule-abiding")
		st.NonTrivial("ok|" + gen.Shape(prog))
		cOK := ruleCase{strCase: mkStrCase(base), Params: params, Expect: "compile"}
		if msg := checkRules(cOK); msg != "" {
			st.Violation(rt, "C13", "rules", cOK, "%+q: %s", base, msg)
		}
		if rapid.IntRange(0, 19).Draw(rt, "manyargs") == 0 {
			// strcat takes any number of arguments >= 1
			sizes := []int{255, 256, 257, 1000}
			if env.Thorough() {
				sizes = append(sizes, 65536)
			}
			nargs := rapid.SampledFrom(sizes).Draw(rt, "strcatargs")
			args := make([]string, nargs)
			for i := range args {
				args[i] = fmt.Sprintf("c%d", i%7)
			}
			src := "T | extend s = strcat(" + strings.Join(args, ", ") + ") | take 1"
			st.Eval()
			st.Class("rule-abiding-many-arguments")
			cMany := ruleCase{strCase: mkStrCase(src), Expect: "compile"}
			if msg := checkRules(cMany); msg != "" {
				st.Violation(rt, "C13", "rules", cMany, "strcat with %d arguments: %s", nargs, msg)
			}
		}
		kind := rapid.SampledFrom(plantKinds).Draw(rt, "plant")
		desc, placement, ok := plant(rt, g, prog, kind)
		if !ok {
			st.Class("plant-not-applicable:" + kind)
			return
		}
		bad := gen.Layout(gen.Print(prog), nil).Src
		st.Eval()
		st.Class("planted:" + kind)
		st.Class("placement:" + placement)
		st.NonTrivial("bad|" + kind + "|" + placement + "|" + gen.Shape(prog))
		st.SampleHashed("planted:"+kind, bad, func() any { return map[string]string{"rule": desc, "placement": placement, "pql": bad} })
		cBad := ruleCase{strCase: mkStrCase(bad), Params: params, Expect: "reject", Rule: desc}
		if msg := checkRules(cBad); msg != "" {
			st.Violation(rt, "C13", "rules", cBad, "%+q: %s", bad, msg)
		}
	})
}

// TestC13EitherOr: the either/or contract over arbitrary strings.
func TestC13EitherOr(t *testing.T) {
	st := harn.NewStats(env, "eitheror")
	defer st.Flush()
	rapid.Check(t, func(rt *rapid.T) {
		src, params, class := genTotalCase(rt)
		if len(src) > 600 {
			src = src[:600]
		}
		if rapid.IntRange(0, 9).Draw(rt, "affix") == 0 {
			// a good program with something in front of or behind it that no
			// layer may quietly take away
			g := gen.NewG(rt, gen.Cfg{MaxDepth: 2, MaxOps: 3, JoinDepth: 1, Lets: true, Compilable: true})
			good := gen.Source(g.Program())
			affix := rapid.SampledFrom([]string{"\ufeff", "\ufeff\ufeff", "\u200b", "\xef\xbb", "\x00", "#!", "\ufffe", "\u202e", "\x1a"}).Draw(rt, "affixtext")
			if rapid.Bool().Draw(rt, "suffix") {
				src = good + affix
			} else {
				src = affix + good
			}
			class = "affixed-program"
		}
		st.Eval()
		st.Class(class)
		c := ruleCase{strCase: mkStrCase(src), Params: params}
		if _, err := pql.Compile(src); err == nil {
			st.Class("compiles")
		}
		st.NonTrivial(src)
		if len(src) < 120 {
			st.SampleHashed(class, src, func() any { return fmt.Sprintf("%+q", src) })
		}
		if msg := checkRules(c); msg != "" {
			st.Violation(rt, "C13", "rules", c, "%+q: %s", src, msg)
		}
	})
}

var soupTwoStatementContexts = []string{"T | join (U) %s; V", "T | %s; V | count", "let x = 1; T | join kind=sideways (U) %s; V", "T | sort by a %s; let y = 2"}

func TestC13Soups(t *testing.T) {
	st := harn.NewStats(env, "soups")
	defer st.Flush()
	maxLen := env.Pick(4, 5)
	st.SetExhaustive(fmt.Sprintf("all sequences of <= %d tokens over %q spliced into %q; all sequences of <= %d tokens over %q spliced into %q and into %q", maxLen, soupLarge, soupContexts, env.Pick(3, 4), soupOps, soupOpContexts, soupTwoStatementContexts))
	failed := false
	one := func(soup string, contexts []string) {
		for _, ctx := range contexts {
			if failed {
				return
			}
			src := fmt.Sprintf(ctx, soup)
			c := ruleCase{strCase: mkStrCase(src)}
			st.Eval()
			st.NonTrivialExact(1)
			if msg := checkRules(c); msg != "" {
				failed = true
				st.Violation(t, "C13", "rules", c, "%+q: %s", src, msg)
			}
		}
	}
	enumSoups(soupLarge, maxLen, env.Shard, env.NShards, func(soup string) { one(soup, soupContexts) })
	enumSoups(soupOps, env.Pick(3, 4), env.Shard, env.NShards, func(soup string) { one(soup, soupOpContexts) })
	nw := enumDictionary(env.Pick(3, 4), env.Shard, env.NShards, func(src string) { one(src, []string{"%s"}) })
	st.Note("plus the source dictionary: each of the %d words found as string literals in the parser and compiler sources followed by every sequence of <= %d tokens over %q, spliced into %q", nw, env.Pick(3, 4), dictTail, dictContexts)
	// a broken statement followed by a good one: the error must survive
	enumSoups(soupOps, env.Pick(3, 4), env.Shard, env.NShards, func(soup string) { one(soup, soupTwoStatementContexts) })
	st.Sample("soup", "T | where a + ( f , [ ]")
}

func FuzzC13EitherOr(f *testing.F) {
	for _, s := range fuzzSeeds("rules") {
		f.Add(s)
	}
	st := harn.NewStats(env, "fuzz")
	f.Fuzz(func(t *testing.T, src string) {
		if len(src) > 400 {
			return
		}
		c := ruleCase{strCase: mkStrCase(src)}
		if msg := checkRules(c); msg != "" {
			st.Violation(t, "C13", "rules", c, "%+q: %s", src, msg)
		}
	})
}

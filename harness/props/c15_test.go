package props

// C15 — statement splitting agrees with the lexer and loses nothing.

import (
	"fmt"
	"strings"
	"testing"

	"github.com/runreveal/pql/parser"
	"pgregory.net/rapid"

	"verif/harness/astx"
	"verif/harness/harn"
)

func tokensEqualShifted(whole []parser.Token, piece []parser.Token, shift int) string {
	if len(whole) != len(piece) {
		return fmt.Sprintf("%d tokens in context, %d in isolation", len(whole), len(piece))
	}
	for i := range whole {
		w, p := whole[i], piece[i]
		if w.Kind != p.Kind || w.Span.Start != p.Span.Start+shift || w.Span.End != p.Span.End+shift {
			return fmt.Sprintf("token %d: %v %v in context, %v %v (+%d) in isolation", i, w.Kind, w.Span, p.Kind, p.Span, shift)
		}
		if w.Kind != parser.TokenError && w.Value != p.Value {
			return fmt.Sprintf("token %d: value %q in context, %q in isolation", i, w.Value, p.Value)
		}
	}
	return ""
}

func checkSplit(src string) string {
	parts := parser.SplitStatements(src)
	toks := parser.Scan(src)
	if j := strings.Join(parts, ";"); j != src {
		return fmt.Sprintf("joining the pieces gives %+q", j)
	}
	var semis []parser.Token
	for _, t := range toks {
		if t.Kind == parser.TokenSemi {
			if src[t.Span.Start:t.Span.End] != ";" {
				return fmt.Sprintf("semicolon token %v covers %+q", t.Span, src[t.Span.Start:t.Span.End])
			}
			semis = append(semis, t)
		}
	}
	if len(parts) != len(semis)+1 {
		return fmt.Sprintf("%d pieces for %d semicolon tokens", len(parts), len(semis))
	}
	start := 0
	ti := 0
	nonEmpty := 0
	allPiecesParse := true
	type pieceInfo struct {
		offset int
		text   string
		ntoks  int
	}
	var infos []pieceInfo
	for i, part := range parts {
		end := len(src)
		if i < len(semis) {
			end = semis[i].Span.Start
		}
		if start > end || src[start:end] != part {
			return fmt.Sprintf("piece %d is %+q, the text between the semicolon tokens is %+q", i, part, src[max(0, min(start, len(src))):max(0, min(end, len(src)))])
		}
		// tokens of the whole source that lie in this piece
		var inCtx []parser.Token
		for ti < len(toks) && toks[ti].Span.End <= end && toks[ti].Kind != parser.TokenSemi {
			inCtx = append(inCtx, toks[ti])
			ti++
		}
		alone := parser.Scan(part)
		for _, t := range alone {
			if t.Kind == parser.TokenSemi {
				return fmt.Sprintf("piece %d %+q contains a semicolon token", i, part)
			}
		}
		if m := tokensEqualShifted(inCtx, alone, start); m != "" {
			return fmt.Sprintf("piece %d %+q: %s", i, part, m)
		}
		if len(alone) > 0 {
			nonEmpty++
		}
		infos = append(infos, pieceInfo{offset: start, text: part, ntoks: len(alone)})
		if i < len(semis) {
			if ti >= len(toks) || toks[ti].Kind != parser.TokenSemi {
				return fmt.Sprintf("token stream out of step after piece %d", i)
			}
			ti++
			start = semis[i].Span.End
		}
	}
	if ti != len(toks) {
		return fmt.Sprintf("%d tokens of the source are in no piece", len(toks)-ti)
	}
	// Parse: statements <-> non-empty pieces
	stmts, err := parser.Parse(src)
	// Whether or not parsing succeeds, every statement Parse reports lies
	// inside one piece (its positions never cross a semicolon token) and the
	// statements come in the order of their pieces.
	lastPiece := -1
	stmtOfPiece := map[int]parser.Statement{}
	for k, st := range stmts {
		if astx.IsNilNode(st) {
			continue
		}
		lo, hi := -1, -1
		for _, ns := range astx.AllSpanValues(st) {
			if !ns.Span.IsValid() || ns.Span.Len() == 0 {
				// empty spans designate no text (a failed parse leaves e.g. the
				// zero Span of a bracket that never came)
				continue
			}
			if lo < 0 || ns.Span.Start < lo {
				lo = ns.Span.Start
			}
			if ns.Span.End > hi {
				hi = ns.Span.End
			}
		}
		if lo < 0 {
			continue
		}
		piece := -1
		for pi, in := range infos {
			if lo >= in.offset && hi <= in.offset+len(in.text) {
				piece = pi
			}
		}
		if piece < 0 {
			return fmt.Sprintf("statement %d reported by Parse covers [%d,%d), which is not inside any single piece (it crosses a semicolon token)", k, lo, hi)
		}
		if piece <= lastPiece {
			return fmt.Sprintf("statement %d reported by Parse lies in piece %d, after a statement of piece %d: order or number of statements does not follow the pieces", k, piece, lastPiece)
		}
		lastPiece = piece
		stmtOfPiece[piece] = st
	}
	// A piece that parses on its own is a statement of the source whatever
	// surrounds it: Parse(source) must report it (equal up to the shift) even
	// when other pieces are in error.
	for pi, in := range infos {
		if in.ntoks == 0 {
			continue
		}
		ps, perr := parser.Parse(in.text)
		if perr != nil || len(ps) != 1 {
			continue
		}
		got, ok := stmtOfPiece[pi]
		if !ok {
			return fmt.Sprintf("piece %d %+q parses on its own, but Parse(source) reports no statement for it", pi, in.text)
		}
		if m := astx.EqualShifted(ps[0], got, in.offset); m != "" {
			return fmt.Sprintf("piece %d %+q parsed alone differs from the statement Parse(source) reports for it at %s", pi, in.text, m)
		}
	}
	var pieceStmts []parser.Statement
	for _, in := range infos {
		if in.ntoks == 0 {
			continue
		}
		ps, perr := parser.Parse(in.text)
		if perr != nil {
			allPiecesParse = false
			continue
		}
		if len(ps) != 1 {
			return fmt.Sprintf("piece %+q parses to %d statements", in.text, len(ps))
		}
		pieceStmts = append(pieceStmts, ps[0])
	}
	if (err == nil) != allPiecesParse {
		return fmt.Sprintf("Parse(source) error=%v but every-piece-parses=%v", err, allPiecesParse)
	}
	if err == nil {
		if len(stmts) != nonEmpty {
			return fmt.Sprintf("Parse reports %d statements for %d non-empty pieces", len(stmts), nonEmpty)
		}
		k := 0
		for _, in := range infos {
			if in.ntoks == 0 {
				continue
			}
			if m := astx.EqualShifted(pieceStmts[k], stmts[k], in.offset); m != "" {
				return fmt.Sprintf("statement %d: piece %+q parsed alone differs from the statement in context at %s", k, in.text, m)
			}
			k++
		}
	}
	return ""
}

// splitNonTrivial: at least one semicolon token and at least one semicolon
// byte that is not a token, or a semicolon next to a look-ahead lexeme.
func splitNonTrivial(src string) bool {
	if !strings.Contains(src, ";") {
		return false
	}
	toks := parser.Scan(src)
	nsemi := 0
	for _, t := range toks {
		if t.Kind == parser.TokenSemi {
			nsemi++
		}
	}
	if nsemi == 0 {
		return false
	}
	if strings.Count(src, ";") > nsemi {
		return true
	}
	for i := 0; i < len(src); i++ {
		if src[i] == ';' && i > 0 && strings.IndexByte("0123456789.eExX=!<>/\\'\"`+-", src[i-1]) >= 0 {
			return true
		}
	}
	return false
}

func init() {
	replayers["split"] = strReplayer(checkSplit)
}

func TestC15Exhaustive(t *testing.T) {
	st := harn.NewStats(env, "exhaustive")
	defer st.Flush()
	maxLen := env.Pick(4, 5)
	st.SetExhaustive(fmt.Sprintf("all strings of length <= %d over the 27-symbol alphabet %q and all strings of length <= %d over the complementary alphabet %q", maxLen, alphabet27, maxLen, alphabetB))
	failed := false
	// second pass: the complementary alphabet
	enumStrings(alphabetB, maxLen, env.Shard, env.NShards, func(s string) {
		if failed {
			return
		}
		st.Eval()
		if splitNonTrivial(s) {
			st.NonTrivialExact(1)
			st.SampleHashed("nontrivial-b", s, func() any { return fmt.Sprintf("%+q", s) })
		}
		if msg := checkSplit(s); msg != "" {
			failed = true
			st.Violation(t, "C15", "split", mkStrCase(s), "%+q: %s", s, msg)
		}
	})
	enumStrings(alphabet27, maxLen, env.Shard, env.NShards, func(s string) {
		if failed {
			return
		}
		st.Eval()
		if splitNonTrivial(s) {
			st.NonTrivialExact(1)
			st.SampleHashed("nontrivial", s, func() any { return fmt.Sprintf("%+q", s) })
		}
		if msg := checkSplit(s); msg != "" {
			failed = true
			st.Violation(t, "C15", "split", mkStrCase(s), "%+q: %s", s, msg)
		}
	})
}

var splitPieces = []string{
	";", ";", ";;", " ; ", "T", "T | count", "let x = 1", "let s = 'a;b'", "T | where a == \"x;\"", "T | where `a;b` > 1", "// c;\n", "// c;", "T // c\n| take 1",
	"'", "\"", "`", "'a", "`a", "\\", "'\\'", "1e", "0x", "1.", ".", "<", "=", "!", "/", "-", "T | take 1e", "T | where a <", "T | where a =", "T | where a !",
	"\n", " ", "T|join (U) on k", "(", ")", "[", "]", "x", "0", "é", "\xff", "\ufeff", "\u00a0", "\r",
	"\xc0\xbb", "'a\xc0\xa7; b'", "\xc0\x8a", "`a\xc0\xbbb`", "/* ; */", "/*", "#! ;",
	"// c\r; x", "'a\rb;c'", "`x\ry;z`", "T // five\r; ten\n", "\r;", ";\r", "h';'", "1e-;",
	"X | join () on a == b", "T | join (5) on k", "T | join (| count) on k", "T | join", "T | join ( )", "T |", "T | where", "T | take", "T | summarize by", "let", "let x", "let x =", "T | project a.", "T | where f(a.)",
	"// c\u2028; d\n", "// c\u0085;\n", "\ufffd", "\xa0", "\x85", "\u2028", "\u0085", "\u200b", "\xc0\xaf", "\xed\xa0\x80", "/'", "/\"", "/`", "/;", "`a\\`", "'a\\'", "`\\`;", "hits/`c;m`", "x /; y",
}

func genSplitString(t *rapid.T) string {
	if rapid.IntRange(0, env.Pick(149, 2999)).Draw(t, "bulk") == 0 {
		return bulkString(t)
	}
	n := rapid.IntRange(1, 10).Draw(t, "pieces")
	var sb strings.Builder
	for i := 0; i < n; i++ {
		if rapid.IntRange(0, 11).Draw(t, "kind") == 0 {
			sb.WriteByte(rapid.Byte().Draw(t, "byte"))
		} else {
			sb.WriteString(rapid.SampledFrom(splitPieces).Draw(t, "piece"))
		}
	}
	return sb.String()
}

func TestC15Random(t *testing.T) {
	st := harn.NewStats(env, "random")
	defer st.Flush()
	rapid.Check(t, func(rt *rapid.T) {
		s := genSplitString(rt)
		st.Eval()
		if splitNonTrivial(s) {
			st.NonTrivial(s)
			st.SampleHashed("nontrivial", s, func() any { return fmt.Sprintf("%+q", s) })
		}
		if _, err := parser.Parse(s); err == nil {
			st.Class("whole-source-parses")
		}
		if msg := checkSplit(s); msg != "" {
			st.Violation(rt, "C15", "split", mkStrCase(s), "%+q: %s", s, msg)
		}
	})
}

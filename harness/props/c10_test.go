package props

// C10 — source positions in tokens and syntax trees are exact.

import (
	"fmt"
	"regexp"
	"sort"
	"strconv"
	"strings"
	"testing"
	"unicode/utf8"

	"github.com/runreveal/pql"
	"github.com/runreveal/pql/parser"
	"pgregory.net/rapid"

	"verif/harness/astx"
	"verif/harness/gen"
	"verif/harness/harn"
)

// expectLexeme describes what the text of a leaf span must scan to.
type expectLexeme struct {
	kinds  []parser.TokenKind // one entry per token
	values [][]string         // accepted identifier values per token (nil = any)
}

func identWords(words ...string) expectLexeme {
	return expectLexeme{kinds: []parser.TokenKind{parser.TokenIdentifier}, values: [][]string{words}}
}

func oneKind(k parser.TokenKind) expectLexeme {
	return expectLexeme{kinds: []parser.TokenKind{k}, values: [][]string{nil}}
}

// leafExpectation returns what the span field `field` of node n has to cover.
func leafExpectation(n parser.Node, field string) (expectLexeme, bool) {
	switch field {
	case "Pipe":
		return oneKind(parser.TokenPipe), true
	case "Lparen":
		return oneKind(parser.TokenLParen), true
	case "Rparen":
		return oneKind(parser.TokenRParen), true
	case "Lbrack":
		return oneKind(parser.TokenLBracket), true
	case "Rbrack":
		return oneKind(parser.TokenRBracket), true
	case "Assign", "KindAssign":
		return oneKind(parser.TokenAssign), true
	case "By":
		return oneKind(parser.TokenBy), true
	case "In":
		return oneKind(parser.TokenIn), true
	case "On":
		return identWords("on"), true
	case "Kind":
		return identWords("kind"), true
	case "With":
		return identWords("with"), true
	}
	switch n := n.(type) {
	case *parser.Ident:
		if field == "NameSpan" {
			k := parser.TokenIdentifier
			if n.Quoted {
				k = parser.TokenQuotedIdentifier
			}
			return expectLexeme{kinds: []parser.TokenKind{k}, values: [][]string{{n.Name}}}, true
		}
	case *parser.BasicLit:
		if field == "ValueSpan" {
			return expectLexeme{kinds: []parser.TokenKind{n.Kind}, values: [][]string{{n.Value}}}, true
		}
	case *parser.BinaryExpr:
		if field == "OpSpan" {
			return oneKind(n.Op), true
		}
	case *parser.UnaryExpr:
		if field == "OpSpan" {
			return oneKind(n.Op), true
		}
	case *parser.SortTerm:
		switch field {
		case "AscDescSpan":
			if n.Asc {
				return identWords("asc"), true
			}
			return identWords("desc"), true
		case "NullsSpan":
			w := "last"
			if n.NullsFirst {
				w = "first"
			}
			return expectLexeme{kinds: []parser.TokenKind{parser.TokenIdentifier, parser.TokenIdentifier}, values: [][]string{{"nulls"}, {w}}}, true
		}
	}
	if field == "Keyword" {
		switch n.(type) {
		case *parser.CountOperator:
			return identWords("count"), true
		case *parser.WhereOperator:
			return identWords("where", "filter"), true
		case *parser.SortOperator:
			return expectLexeme{kinds: []parser.TokenKind{parser.TokenIdentifier, parser.TokenBy}, values: [][]string{{"sort", "order"}, nil}}, true
		case *parser.TakeOperator:
			return identWords("take", "limit"), true
		case *parser.TopOperator:
			return identWords("top"), true
		case *parser.ProjectOperator:
			return identWords("project"), true
		case *parser.ExtendOperator:
			return identWords("extend"), true
		case *parser.SummarizeOperator:
			return identWords("summarize"), true
		case *parser.JoinOperator:
			return identWords("join"), true
		case *parser.AsOperator:
			return identWords("as"), true
		case *parser.RenderOperator:
			return identWords("render"), true
		case *parser.LetStatement:
			return identWords("let"), true
		}
	}
	return expectLexeme{}, false
}

// requiredSpans lists, per node type, span fields that must be valid in a
// successfully parsed program.
func requiredSpan(n parser.Node, field string) bool {
	switch field {
	case "Pipe", "Keyword", "NameSpan", "ValueSpan", "OpSpan", "Lbrack", "Rbrack":
		return true
	}
	switch n.(type) {
	case *parser.CallExpr, *parser.ParenExpr, *parser.InExpr, *parser.JoinOperator:
		return field == "Lparen" || field == "Rparen" || field == "In" || field == "On"
	case *parser.LetStatement:
		return field == "Assign"
	case *parser.TopOperator:
		return field == "By"
	case *parser.RenderProperty:
		return field == "Assign"
	}
	return false
}

func safeSpan(n parser.Node) (sp parser.Span, pan string) {
	defer func() {
		if r := recover(); r != nil {
			pan = fmt.Sprint(r)
		}
	}()
	return n.Span(), ""
}

// checkAbsentParts: an absent optional part (a typed nil node in the tree of
// a successful or failed parse) reports an invalid span and does not panic.
func checkAbsentParts(stmts []parser.Statement) string {
	for _, st := range stmts {
		if astx.IsNilNode(st) {
			continue
		}
		for _, c := range astx.NilChildren(st) {
			sp, pan := safeSpan(c.Node)
			if pan != "" {
				return fmt.Sprintf("Span() of the absent part %s panics: %s", c.Field, pan)
			}
			if sp.IsValid() {
				return fmt.Sprintf("the absent part %s reports the valid span %v", c.Field, sp)
			}
		}
	}
	return ""
}

// checkSpansSuccess verifies the success half of C10 on a parsed program.
func checkSpansSuccess(src string, stmts []parser.Statement) string {
	if m := checkAbsentParts(stmts); m != "" {
		return m
	}
	// token boundaries are the language's (reference tokenizer), not whatever
	// the scanner under test says; a source the reference cannot read is
	// C08's and C09's business
	toks := parser.Scan(src)
	if ref, bad := refTokens(src); bad == "" {
		if len(ref) != len(toks) {
			return fmt.Sprintf("positions are recorded for %d tokens, the source has %d tokens (reference tokenizer): the tree of a successful parse designates text that is no token, or misses one", len(toks), len(ref))
		}
		for i := range ref {
			if ref[i].Span != toks[i].Span {
				return fmt.Sprintf("token %d is recorded at %v, the language puts it at %v (reference tokenizer)", i, toks[i].Span, ref[i].Span)
			}
		}
	}
	starts, ends := map[int]int{}, map[int]int{}
	for i, t := range toks {
		starts[t.Span.Start] = i
		ends[t.Span.End] = i
	}
	type leaf struct {
		sp   parser.Span
		what string
	}
	var leaves []leaf
	for si, stmt := range stmts {
		if astx.IsNilNode(stmt) {
			return fmt.Sprintf("statement %d is nil", si)
		}
		for _, in := range astx.All(stmt) {
			n := in.Node
			what := fmt.Sprintf("%T", n)
			for _, ns := range astx.Spans(n) {
				sp := ns.Span
				name := what + "." + ns.Field
				if !sp.IsValid() {
					if requiredSpan(n, ns.Field) {
						return fmt.Sprintf("%s is invalid %v in a successfully parsed program", name, sp)
					}
					continue
				}
				if sp.End > len(src) || sp.Start == sp.End {
					return fmt.Sprintf("%s = %v is empty or outside the source (len %d)", name, sp, len(src))
				}
				ti, ok1 := starts[sp.Start]
				tj, ok2 := ends[sp.End]
				if !ok1 || !ok2 || tj < ti {
					return fmt.Sprintf("%s = %v (%+q) does not start and end on token boundaries", name, sp, src[sp.Start:sp.End])
				}
				exp, known := leafExpectation(n, ns.Field)
				if !known {
					return fmt.Sprintf("harness: no expectation for span field %s (new AST field?)", name)
				}
				if tj-ti+1 != len(exp.kinds) {
					return fmt.Sprintf("%s = %v covers %d tokens (%+q), expected %d", name, sp, tj-ti+1, src[sp.Start:sp.End], len(exp.kinds))
				}
				for k := range exp.kinds {
					t := toks[ti+k]
					if t.Kind != exp.kinds[k] {
						return fmt.Sprintf("%s = %v designates %+q (%v), expected a %v token", name, sp, src[sp.Start:sp.End], t.Kind, exp.kinds[k])
					}
					if vals := exp.values[k]; vals != nil {
						found := false
						for _, v := range vals {
							if t.Value == v {
								found = true
							}
						}
						if !found {
							return fmt.Sprintf("%s = %v designates %+q (value %q), expected one of %q", name, sp, src[sp.Start:sp.End], t.Value, vals)
						}
					}
				}
				leaves = append(leaves, leaf{sp, name})
			}
			// node span = union of everything below, contains children, ordered siblings
			sp, pan := safeSpan(n)
			if pan != "" {
				return fmt.Sprintf("%s.Span() panics: %s", what, pan)
			}
			want := astx.UnionBelow(n)
			if sp != want && (sp.IsValid() || want.IsValid()) {
				return fmt.Sprintf("%s.Span() = %v, extent of its parts is %v (%+q)", what, sp, want, src[max(0, want.Start):max(0, want.End)])
			}
			prevEnd := -1
			prevWhat := ""
			for _, c := range astx.Children(n) {
				csp, pan := safeSpan(c.Node)
				if pan != "" {
					return fmt.Sprintf("%T.Span() panics: %s", c.Node, pan)
				}
				if !csp.IsValid() {
					return fmt.Sprintf("%s.%s (%T) has invalid span %v", what, c.Field, c.Node, csp)
				}
				if csp.Start < sp.Start || csp.End > sp.End {
					return fmt.Sprintf("%s span %v does not contain its part %s %v", what, sp, c.Field, csp)
				}
				if csp.Start < prevEnd {
					return fmt.Sprintf("%s: part %s %v does not follow its left sibling %s (ends %d)", what, c.Field, csp, prevWhat, prevEnd)
				}
				prevEnd, prevWhat = csp.End, c.Field
			}
		}
	}
	// tiling: leaf spans are pairwise disjoint and cover every token except
	// commas, dots and semicolons exactly once
	sort.Slice(leaves, func(i, j int) bool { return leaves[i].sp.Start < leaves[j].sp.Start })
	for i := 1; i < len(leaves); i++ {
		if leaves[i].sp.Start < leaves[i-1].sp.End {
			return fmt.Sprintf("%s %v and %s %v designate overlapping text", leaves[i-1].what, leaves[i-1].sp, leaves[i].what, leaves[i].sp)
		}
	}
	li := 0
	for _, t := range toks {
		for li < len(leaves) && leaves[li].sp.End <= t.Span.Start {
			li++
		}
		covered := li < len(leaves) && leaves[li].sp.Start <= t.Span.Start && t.Span.End <= leaves[li].sp.End
		switch t.Kind {
		case parser.TokenComma, parser.TokenDot, parser.TokenSemi:
			if covered {
				return fmt.Sprintf("separator token %v at %v lies inside %s", t.Kind, t.Span, leaves[li].what)
			}
		default:
			if !covered {
				return fmt.Sprintf("token %v %+q at %v is designated by no position in the tree", t.Kind, src[t.Span.Start:t.Span.End], t.Span)
			}
		}
	}
	return ""
}

// lineColSet computes every (line, column) some offset in [0, len(src)] has:
// lines are separated by '\n', columns count characters from 1 with tab stops
// every 8 columns.
func lineColSet(src string) map[[2]int]bool {
	set := map[[2]int]bool{}
	line, col := 1, 1
	i := 0
	for {
		set[[2]int{line, col}] = true
		if i >= len(src) {
			break
		}
		r, w := utf8.DecodeRuneInString(src[i:])
		// offsets inside a multi-byte character: count the bytes seen so far as
		// one character each (what a byte-offset slice of the source shows)
		for k := 1; k < w; k++ {
			set[[2]int{line, col + k}] = true
		}
		switch r {
		case '\n':
			line++
			col = 1
		case '\t':
			col += 8 - (col-1)%8
		default:
			col++
		}
		i += w
	}
	return set
}

var lineColRE = regexp.MustCompile(`(?m)^(?:parse pipeline query language: )?(\d+):(\d+): `)

func checkErrorPositions(src, errText string, set map[[2]int]bool) string {
	if i := strings.Index(errText, "(PANIC="); i >= 0 {
		// fmt recovers a panicking Error method and prints this marker instead
		return fmt.Sprintf("formatting the error position panicked: %q", errText[i:min(len(errText), i+120)])
	}
	for _, m := range lineColRE.FindAllStringSubmatch(errText, -1) {
		l, _ := strconv.Atoi(m[1])
		c, _ := strconv.Atoi(m[2])
		if !set[[2]int{l, c}] {
			return fmt.Sprintf("error position %d:%d does not point into the source (message: %q)", l, c, firstLine(errText))
		}
	}
	return ""
}

func firstLine(s string) string {
	if i := strings.IndexByte(s, '\n'); i >= 0 {
		return s[:i]
	}
	return s
}

// checkSpansFailure verifies the failure half on a failed parse.
func checkSpansFailure(src string, stmts []parser.Statement, err error) string {
	for _, ns := range astx.AllSpanValues(stmts) {
		sp := ns.Span
		if sp.IsValid() && sp.End > len(src) {
			return fmt.Sprintf("failed parse reports span %s = %v outside the source (len %d)", ns.Field, sp, len(src))
		}
	}
	for _, st := range stmts {
		if astx.IsNilNode(st) {
			continue
		}
		for _, in := range astx.All(st) {
			sp, pan := safeSpan(in.Node)
			if pan != "" {
				return fmt.Sprintf("%T.Span() panics on the partial tree of a failed parse: %s", in.Node, pan)
			}
			if sp.IsValid() && sp.End > len(src) {
				return fmt.Sprintf("%T.Span() = %v outside the source (len %d)", in.Node, sp, len(src))
			}
		}
	}
	if m := checkAbsentParts(stmts); m != "" {
		return m
	}
	text, pan := safeErrorText(err)
	if pan != "" {
		return "formatting the parse error panics: " + pan
	}
	return checkErrorPositions(src, text, lineColSet(src))
}

func safeErrorText(err error) (text, pan string) {
	defer func() {
		if r := recover(); r != nil {
			pan = fmt.Sprint(r)
		}
	}()
	return err.Error(), ""
}

// checkPositions is the full C10 oracle for one source. compiled reports
// whether Compile was consulted for its error text.
func checkPositions(src string) (msg string, parsed bool) {
	defer func() {
		if r := recover(); r != nil {
			text := fmt.Sprint(r)
			if strings.Contains(text, "out of range") {
				// a position beyond the source made slicing panic
				msg, parsed = "a recorded position lies outside the source: scanning/parsing panics with "+text, false
				return
			}
			panic(r)
		}
	}()
	stmts, err := parser.Parse(src)
	if err != nil {
		return checkSpansFailure(src, stmts, err), false
	}
	if m := checkSpansSuccess(src, stmts); m != "" {
		return m, true
	}
	// Compile's own diagnostics carry positions too.
	r := safeCompile(src, nil)
	if r.Hung || r.Panic != "" || r.Inconcl {
		return "", true // C12's business
	}
	if r.Err != nil {
		text, pan := safeErrorText(r.Err)
		if pan != "" {
			return "formatting the compile error panics: " + pan, true
		}
		return checkErrorPositions(src, text, lineColSet(src)), true
	}
	return "", true
}

func init() {
	replayers["positions"] = strReplayer(func(src string) string { m, _ := checkPositions(src); return m })
}

var _ = pql.Compile

func spansNonTrivial(prog *gen.Program, src string) bool {
	layout := strings.Contains(src, "\n") || strings.Contains(src, "\t") || strings.Contains(src, "//") || !isASCII(src)
	thin := false
	for _, s := range prog.Stmts {
		if t, ok := s.(*gen.Tabular); ok {
			gen.WalkTabular(t, func(_ *gen.Tabular, op gen.Op) {
				switch op := op.(type) {
				case *gen.Render, *gen.Top:
					thin = true
				case *gen.Join:
					if op.Kind != "" {
						thin = true
					}
				case *gen.Sort:
					for _, tm := range op.Terms {
						if tm.Dir != "" || tm.Nulls != "" {
							thin = true
						}
					}
				}
			})
		}
	}
	return layout && thin
}

func isASCII(s string) bool {
	for i := 0; i < len(s); i++ {
		if s[i] >= 0x80 {
			return false
		}
	}
	return true
}

func TestC10Programs(t *testing.T) {
	st := harn.NewStats(env, "programs")
	defer st.Flush()
	rapid.Check(t, func(rt *rapid.T) {
		g := gen.NewG(rt, gen.Cfg{MaxDepth: 3, MaxOps: 5, JoinDepth: 2, Lets: true, Hostile: true})
		prog := g.Program()
		pr := gen.Print(prog)
		for li := 0; li < 2; li++ {
			laid := gen.Layout(pr, g.Seps(len(pr.Toks)))
			st.Eval()
			st.Class("layout:" + gen.LayoutClass(laid.Src))
			if spansNonTrivial(prog, laid.Src) {
				st.NonTrivial(gen.Shape(prog) + "|" + gen.LayoutClass(laid.Src))
				st.SampleHashed("program", laid.Src, func() any { return laid.Src })
			}
			msg, parsed := checkPositions(laid.Src)
			if !parsed {
				// C07 reports the rejection; the failure half of C10 still applies
				st.Class("grammar-program-rejected")
			}
			if msg != "" {
				st.Violation(rt, "C10", "positions", mkStrCase(laid.Src), "%+q: %s", laid.Src, msg)
			}
		}
	})
}

func TestC10Corrupt(t *testing.T) {
	st := harn.NewStats(env, "corrupt")
	defer st.Flush()
	rapid.Check(t, func(rt *rapid.T) {
		g := gen.NewG(rt, gen.Cfg{MaxDepth: 3, MaxOps: 4, JoinDepth: 2, Lets: true, Hostile: true})
		prog := g.Program()
		pr := gen.Print(prog)
		var src string
		if rapid.IntRange(0, 3).Draw(rt, "bytes") == 0 {
			src = g.MutateBytes(gen.Layout(pr, g.Seps(len(pr.Toks))).Src)
		} else {
			toks, _ := g.MutateTokens(pr.Toks)
			src = gen.Layout(gen.TokensOnly(toks), g.Seps(len(toks))).Src
		}
		st.Eval()
		msg, parsed := checkPositions(src)
		if parsed {
			st.Class("accepted-mutant")
		} else if msg == "" {
			st.Class("failed-parse")
			if stmts, _ := parser.Parse(src); len(stmts) > 0 {
				st.Class("failed-parse-with-partial-tree")
				st.NonTrivial(src)
				st.SampleHashed("failed", src, func() any { return fmt.Sprintf("%+q", src) })
			}
		}
		if msg != "" {
			st.Violation(rt, "C10", "positions", mkStrCase(src), "%+q: %s", src, msg)
		}
	})
}

func TestC10Soups(t *testing.T) {
	st := harn.NewStats(env, "soups")
	defer st.Flush()
	maxLen := env.Pick(4, 5)
	st.SetExhaustive(fmt.Sprintf("all sequences of <= %d tokens over %q spliced into %q; all sequences of <= %d tokens over %q spliced into %q", maxLen, soupLarge, soupContexts, env.Pick(3, 4), soupOps, soupOpContexts))
	failed := false
	one := func(soup string, contexts []string) {
		for _, ctx := range contexts {
			if failed {
				return
			}
			src := fmt.Sprintf(ctx, soup)
			st.Eval()
			msg, parsed := checkPositions(src)
			if !parsed {
				st.NonTrivialExact(1)
				st.SampleHashed("failed", src, func() any { return src })
			} else {
				st.Class("parsed")
			}
			if msg != "" {
				failed = true
				st.Violation(t, "C10", "positions", mkStrCase(src), "%+q: %s", src, msg)
			}
		}
	}
	enumSoups(soupLarge, maxLen, env.Shard, env.NShards, func(soup string) { one(soup, soupContexts) })
	enumSoups(soupOps, env.Pick(3, 4), env.Shard, env.NShards, func(soup string) { one(soup, soupOpContexts) })
	nw := enumDictionary(env.Pick(3, 4), env.Shard, env.NShards, func(src string) { one(src, []string{"%s"}) })
	st.Note("plus the source dictionary: each of the %d words found as string literals in the parser and compiler sources followed by every sequence of <= %d tokens over %q, spliced into %q", nw, env.Pick(3, 4), dictTail, dictContexts)
}

func FuzzC10Positions(f *testing.F) {
	for _, s := range fuzzSeeds("positions") {
		f.Add(s)
	}
	st := harn.NewStats(env, "fuzz")
	f.Fuzz(func(t *testing.T, src string) {
		if len(src) > 400 {
			return
		}
		if msg, _ := checkPositions(src); msg != "" {
			st.Violation(t, "C10", "positions", mkStrCase(src), "%+q: %s", src, msg)
		}
	})
}

// TestC10Large: the span laws on large flat programs.
func TestC10Large(t *testing.T) {
	st := harn.NewStats(env, "large")
	defer st.Flush()
	rapid.Check(t, func(rt *rapid.T) {
		g := gen.NewG(rt, gen.Cfg{MaxDepth: 1, MaxOps: 2, JoinDepth: 0, Compilable: true})
		prog, class, n := genLargeProgram(rt, g)
		pr := gen.Print(prog)
		src := gen.Layout(pr, g.Seps(len(pr.Toks))).Src
		st.Eval()
		st.Class(class)
		st.NonTrivial(fmt.Sprint(class, n))
		msg, parsed := checkPositions(src)
		if !parsed && msg == "" {
			st.Class("grammar-program-rejected")
		}
		if msg != "" {
			st.Violation(rt, "C10", "positions", mkStrCase(src), "%s program of size %d: %s", class, n, trunc(msg, 600))
		}
	})
}

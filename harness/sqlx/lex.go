package sqlx

import (
	"fmt"
	"strings"
)

type TKind int

const (
	TWord TKind = iota + 1
	TQIdent
	TString
	TNumber
	TOp
	TPlaceholder
	TComment
	TEOF
)

type Tok struct {
	Kind       TKind
	Text       string // raw
	Val        string // decoded for string / qident; upper-cased for words
	Start, End int
}

type Mode int

const (
	Standard Mode = iota
	ClickHouse
)

func Lex(s string, mode Mode) ([]Tok, error) {
	var out []Tok
	i, n := 0, len(s)
	for i < n {
		c := s[i]
		switch {
		case c == ' ' || c == '\n' || c == '\t' || c == '\r':
			i++
		case c == '-' && i+1 < n && s[i+1] == '-':
			j := strings.IndexByte(s[i:], '\n')
			if j < 0 {
				j = n - i
			}
			out = append(out, Tok{Kind: TComment, Text: s[i : i+j], Start: i, End: i + j})
			i += j
		case c == '/' && i+1 < n && s[i+1] == '*':
			j := strings.Index(s[i+2:], "*/")
			if j < 0 {
				return out, fmt.Errorf("unterminated comment at %d", i)
			}
			out = append(out, Tok{Kind: TComment, Text: s[i : i+2+j+2], Start: i, End: i + 2 + j + 2})
			i += 2 + j + 2
		case c == '\'' || c == '"' || c == '`':
			j := i + 1
			var b strings.Builder
			closed := false
			for j < n {
				d := s[j]
				if d == c {
					if j+1 < n && s[j+1] == c {
						b.WriteByte(c)
						j += 2
						continue
					}
					closed = true
					j++
					break
				}
				if d == '\\' && mode == ClickHouse {
					if j+1 >= n {
						return out, fmt.Errorf("unterminated quoted token at %d", i)
					}
					e := s[j+1]
					switch e {
					case 'n':
						b.WriteByte('\n')
					case 't':
						b.WriteByte('\t')
					case '0':
						b.WriteByte(0)
					case 'r':
						b.WriteByte('\r')
					case 'b':
						b.WriteByte('\b')
					case 'f':
						b.WriteByte('\f')
					case 'a':
						b.WriteByte('\a')
					case 'v':
						b.WriteByte('\v')
					case 'x':
						if j+3 < n && isHexByte(s[j+2]) && isHexByte(s[j+3]) {
							b.WriteByte(hexVal(s[j+2])<<4 | hexVal(s[j+3]))
							j += 4
							continue
						}
						b.WriteByte('x')
					default:
						b.WriteByte(e)
					}
					j += 2
					continue
				}
				b.WriteByte(d)
				j++
			}
			if !closed {
				return out, fmt.Errorf("unterminated quoted token at %d", i)
			}
			k := TQIdent
			if c == '\'' {
				k = TString
			}
			out = append(out, Tok{Kind: k, Text: s[i:j], Val: b.String(), Start: i, End: j})
			i = j
		case c >= '0' && c <= '9' || c == '.' && i+1 < n && s[i+1] >= '0' && s[i+1] <= '9':
			j := i
			for j < n && s[j] >= '0' && s[j] <= '9' {
				j++
			}
			if j < n && s[j] == '.' {
				j++
				for j < n && s[j] >= '0' && s[j] <= '9' {
					j++
				}
			}
			if j < n && (s[j] == 'e' || s[j] == 'E') {
				k := j + 1
				if k < n && (s[k] == '+' || s[k] == '-') {
					k++
				}
				if k < n && s[k] >= '0' && s[k] <= '9' {
					for k < n && s[k] >= '0' && s[k] <= '9' {
						k++
					}
					j = k
				}
			}
			out = append(out, Tok{Kind: TNumber, Text: s[i:j], Start: i, End: j})
			i = j
		case c == '_' || c == '$' || c >= 'a' && c <= 'z' || c >= 'A' && c <= 'Z':
			j := i + 1
			for j < n && (s[j] == '_' || s[j] == '$' || s[j] >= 'a' && s[j] <= 'z' || s[j] >= 'A' && s[j] <= 'Z' || s[j] >= '0' && s[j] <= '9') {
				j++
			}
			out = append(out, Tok{Kind: TWord, Text: s[i:j], Val: strings.ToUpper(s[i:j]), Start: i, End: j})
			i = j
		case c == '{':
			j := strings.IndexByte(s[i:], '}')
			if j < 0 {
				return out, fmt.Errorf("unterminated placeholder at %d", i)
			}
			out = append(out, Tok{Kind: TPlaceholder, Text: s[i : i+j+1], Start: i, End: i + j + 1})
			i += j + 1
		default:
			two := ""
			if i+1 < n {
				two = s[i : i+2]
			}
			switch two {
			case "<>", "<=", ">=", "||", "!=", "==":
				out = append(out, Tok{Kind: TOp, Text: two, Start: i, End: i + 2})
				i += 2
				continue
			}
			if strings.IndexByte("()[],;.*+-/%=<>", c) >= 0 {
				out = append(out, Tok{Kind: TOp, Text: string(c), Start: i, End: i + 1})
				i++
				continue
			}
			return out, fmt.Errorf("unexpected byte %q at %d", c, i)
		}
	}
	out = append(out, Tok{Kind: TEOF, Start: n, End: n})
	return out, nil
}

func isHexByte(c byte) bool {
	return c >= '0' && c <= '9' || c >= 'a' && c <= 'f' || c >= 'A' && c <= 'F'
}

func hexVal(c byte) byte {
	switch {
	case c >= '0' && c <= '9':
		return c - '0'
	case c >= 'a' && c <= 'f':
		return c - 'a' + 10
	default:
		return c - 'A' + 10
	}
}

package sqlx

import (
	"fmt"

	"verif/harness/prim"
	"verif/harness/reftok"
)

type parser struct {
	toks []Tok
	pos  int
}

type ParseError struct{ Msg string }

func (e *ParseError) Error() string { return e.Msg }

func (p *parser) fail(format string, args ...any) {
	t := p.peek()
	panic(&ParseError{Msg: fmt.Sprintf("at %d (%q): ", t.Start, t.Text) + fmt.Sprintf(format, args...)})
}

func (p *parser) peek() Tok { return p.toks[p.pos] }
func (p *parser) next() Tok { t := p.toks[p.pos]; p.pos++; return t }
func (p *parser) isWord(w string) bool {
	t := p.peek()
	return t.Kind == TWord && t.Val == w
}
func (p *parser) isOp(o string) bool {
	t := p.peek()
	return t.Kind == TOp && t.Text == o
}
func (p *parser) acceptWord(w string) bool {
	if p.isWord(w) {
		p.pos++
		return true
	}
	return false
}
func (p *parser) acceptOp(o string) bool {
	if p.isOp(o) {
		p.pos++
		return true
	}
	return false
}
func (p *parser) expectWord(w string) {
	if !p.acceptWord(w) {
		p.fail("expected %s", w)
	}
}
func (p *parser) expectOp(o string) {
	if !p.acceptOp(o) {
		p.fail("expected %q", o)
	}
}

// ParseStatement parses "[WITH ...] select ;". A comment anywhere is an error.
func ParseStatement(sql string, mode Mode) (st *Stmt, err error) {
	toks, lerr := Lex(sql, mode)
	if lerr != nil {
		return nil, lerr
	}
	for _, t := range toks {
		if t.Kind == TComment {
			return nil, &ParseError{Msg: "comment in output: " + t.Text}
		}
	}
	p := &parser{toks: toks}
	defer func() {
		if r := recover(); r != nil {
			if pe, ok := r.(*ParseError); ok {
				err = pe
				return
			}
			panic(r)
		}
	}()
	st = &Stmt{}
	if p.acceptWord("WITH") {
		for {
			t := p.next()
			if t.Kind != TQIdent {
				p.pos--
				p.fail("expected CTE name")
			}
			p.expectWord("AS")
			p.expectOp("(")
			sel := p.selectStmt()
			p.expectOp(")")
			st.CTEs = append(st.CTEs, CTE{Name: t.Val, Sel: sel})
			if !p.acceptOp(",") {
				break
			}
		}
	}
	st.Sel = p.selectStmt()
	p.expectOp(";")
	if p.peek().Kind != TEOF {
		p.fail("trailing tokens after ';'")
	}
	return st, nil
}

var clauseWords = map[string]bool{"FROM": true, "WHERE": true, "GROUP": true, "ORDER": true, "LIMIT": true, "JOIN": true, "LEFT": true, "INNER": true, "ON": true, "AS": true,
	"ASC": true, "DESC": true, "NULLS": true, "THEN": true, "ELSE": true, "END": true, "WHEN": true, "AND": true, "OR": true, "IN": true, "IS": true, "SELECT": true, "WITH": true, "FILTER": true}

func (p *parser) selectStmt() *Select {
	p.expectWord("SELECT")
	s := &Select{}
	if p.acceptWord("DISTINCT") {
		s.Distinct = true
	}
	for {
		var it Item
		if p.acceptOp("*") {
			it.Star = true
		} else {
			it.E = p.expr(0)
			if p.acceptWord("AS") {
				it.HasAs = true
				it.Alias = p.name()
			} else if p.peek().Kind == TQIdent {
				it.HasAs = true
				it.Alias = p.next().Val
			}
		}
		s.Items = append(s.Items, it)
		if !p.acceptOp(",") {
			break
		}
	}
	p.expectWord("FROM")
	s.From = p.factor()
	for {
		left := false
		if p.acceptWord("LEFT") {
			left = true
			p.acceptWord("OUTER")
			p.expectWord("JOIN")
		} else if p.acceptWord("INNER") {
			p.expectWord("JOIN")
		} else if !p.acceptWord("JOIN") {
			break
		}
		f := p.factor()
		p.expectWord("ON")
		on := p.expr(0)
		s.Joins = append(s.Joins, Join{Left: left, F: f, On: on})
	}
	if p.acceptWord("WHERE") {
		s.Where = p.expr(0)
	}
	if p.acceptWord("GROUP") {
		p.expectWord("BY")
		for {
			s.GroupBy = append(s.GroupBy, p.expr(0))
			if !p.acceptOp(",") {
				break
			}
		}
	}
	if p.acceptWord("ORDER") {
		p.expectWord("BY")
		for {
			t := OrderTerm{E: p.expr(0)}
			if p.acceptWord("DESC") {
				t.Desc = true
			} else {
				p.acceptWord("ASC")
			}
			if p.acceptWord("NULLS") {
				t.NullsSet = true
				if p.acceptWord("FIRST") {
					t.NullsFirst = true
				} else {
					p.expectWord("LAST")
				}
			}
			s.OrderBy = append(s.OrderBy, t)
			if !p.acceptOp(",") {
				break
			}
		}
	}
	if p.acceptWord("LIMIT") {
		s.Limit = p.expr(0)
	}
	return s
}

func (p *parser) name() string {
	t := p.next()
	if t.Kind == TQIdent {
		return t.Val
	}
	if t.Kind == TWord && !clauseWords[t.Val] {
		return t.Text
	}
	p.pos--
	p.fail("expected name")
	return ""
}

func (p *parser) factor() Factor {
	var f Factor
	if p.acceptOp("(") {
		f.Sub = p.selectStmt()
		p.expectOp(")")
	} else {
		f.Table = p.name()
	}
	if p.acceptWord("AS") {
		f.Alias = p.name()
	} else if p.peek().Kind == TQIdent {
		f.Alias = p.next().Val
	}
	return f
}

// ClickHouse precedence: OR 3, AND 4, NOT 5 (prefix), IS NULL 6 (postfix), comparison/IN 9, || 10, + - 11, * / % 12, unary - 13, [ ] . 14
func binPrec(t Tok) (string, int) {
	if t.Kind == TWord {
		switch t.Val {
		case "OR":
			return "OR", 3
		case "AND":
			return "AND", 4
		case "IS":
			return "IS", 6
		case "IN":
			return "IN", 9
		}
		return "", -1
	}
	if t.Kind == TOp {
		switch t.Text {
		case "=", "==":
			return "=", 9
		case "<>", "!=":
			return "<>", 9
		case "<", "<=", ">", ">=":
			return t.Text, 9
		case "||":
			return "||", 10
		case "+", "-":
			return t.Text, 11
		case "*", "/", "%":
			return t.Text, 12
		case "[":
			return "[", 14
		}
	}
	return "", -1
}

func (p *parser) expr(minPrec int) Expr {
	var x Expr
	// prefix
	switch {
	case p.isWord("NOT"):
		p.pos++
		x = &Unary{Op: "NOT", X: p.expr(5)}
	case p.isOp("-") || p.isOp("+"):
		op := p.next().Text
		x = &Unary{Op: op, X: p.expr(13)}
	default:
		x = p.atom()
	}
	for {
		op, prec := binPrec(p.peek())
		if prec < 0 || prec < minPrec {
			return x
		}
		switch op {
		case "IS":
			p.pos++
			not := p.acceptWord("NOT")
			p.expectWord("NULL")
			x = &IsNull{X: x, Not: not}
		case "IN":
			p.pos++
			p.expectOp("(")
			var list []Expr
			for {
				list = append(list, p.expr(0))
				if !p.acceptOp(",") {
					break
				}
			}
			p.expectOp(")")
			x = &InList{X: x, List: list}
		case "[":
			p.pos++
			i := p.expr(0)
			p.expectOp("]")
			x = &Index{X: x, I: i}
		default:
			p.pos++
			y := p.expr(prec + 1)
			x = &Binary{Op: op, X: x, Y: y}
		}
	}
}

func (p *parser) atom() Expr {
	t := p.next()
	switch t.Kind {
	case TNumber:
		return &Lit{V: prim.NumLit(reftok.ParseDecimal(t.Text)), Text: t.Text}
	case TString:
		return &Lit{V: t.Val}
	case TPlaceholder:
		return &Param{Text: t.Text}
	case TQIdent:
		parts := []string{t.Val}
		for p.isOp(".") && p.toks[p.pos+1].Kind == TQIdent {
			p.pos++
			parts = append(parts, p.next().Val)
		}
		return &ColRef{Parts: parts}
	case TOp:
		if t.Text == "(" {
			x := p.expr(0)
			p.expectOp(")")
			return x
		}
	case TWord:
		switch t.Val {
		case "TRUE":
			return &Lit{V: true}
		case "FALSE":
			return &Lit{V: false}
		case "NULL":
			return &Lit{V: nil}
		case "CURRENT_TIMESTAMP":
			return &Call{Name: "now"}
		case "CASE":
			c := &Case{}
			for p.acceptWord("WHEN") {
				cond := p.expr(0)
				p.expectWord("THEN")
				th := p.expr(0)
				c.Whens = append(c.Whens, struct{ C, T Expr }{cond, th})
			}
			if p.acceptWord("ELSE") {
				c.Else = p.expr(0)
			}
			p.expectWord("END")
			return c
		}
		if p.isOp("(") {
			p.pos++
			call := &Call{Name: t.Text}
			if p.isOp("*") && p.toks[p.pos+1].Kind == TOp && p.toks[p.pos+1].Text == ")" {
				p.pos++
				call.Star = true
			} else if !p.isOp(")") {
				for {
					call.Args = append(call.Args, p.expr(0))
					if !p.acceptOp(",") {
						break
					}
				}
			}
			p.expectOp(")")
			if p.acceptWord("FILTER") {
				p.expectOp("(")
				p.expectWord("WHERE")
				call.Filter = p.expr(0)
				p.expectOp(")")
			}
			return call
		}
	}
	p.pos--
	p.fail("expected expression")
	return nil
}

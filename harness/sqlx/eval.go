package sqlx

import (
	"fmt"
	"sort"
	"strings"

	"verif/harness/prim"
)

// Table is an ordered list of rows.
type Table struct {
	Cols []string
	Rows [][]prim.Value
}

// DB maps table names to tables.
type DB map[string]*Table

type col struct{ Qual, Name string }

type rel struct {
	cols []col
	rows [][]prim.Value
}

// EvalError is a run-time failure of the emitted SQL (unknown table or
// column, aggregate misuse, bad LIMIT, ...).
type EvalError struct {
	Msg string
	// IllFormed marks a reading under which the statement is not valid SQL at
	// all (a non-grouped source column inside an aggregating SELECT); such a
	// reading is dropped rather than counted as a failure.
	IllFormed bool
}

func (e *EvalError) Error() string { return e.Msg }

func fail(format string, args ...any) { panic(&EvalError{Msg: fmt.Sprintf(format, args...)}) }

func illFormed(format string, args ...any) {
	panic(&EvalError{Msg: fmt.Sprintf(format, args...), IllFormed: true})
}

// Options control dialect-dependent choices.
type Options struct {
	// SourceFirst: a name in WHERE / GROUP BY / ORDER BY that is both an output
	// alias of the SELECT and a column of its source resolves to the source
	// column (standard SQL inside expressions); otherwise to the alias
	// (ClickHouse).
	SourceFirst bool
	// Params binds placeholder texts to values.
	Params map[string]prim.Value
}

// Eval evaluates a statement.
func Eval(st *Stmt, db DB, opt Options) (res *Table, err error) {
	defer func() {
		if r := recover(); r != nil {
			if ee, ok := r.(*EvalError); ok {
				err = ee
				return
			}
			panic(r)
		}
	}()
	env := map[string]*Table{}
	for k, v := range db {
		env[k] = v
	}
	for _, c := range st.CTEs {
		env[c.Name] = evalSelect(c.Sel, env, opt)
	}
	return evalSelect(st.Sel, env, opt), nil
}

func evalFactor(f Factor, env map[string]*Table, opt Options) rel {
	var t *Table
	q := f.Alias
	if f.Sub != nil {
		t = evalSelect(f.Sub, env, opt)
	} else {
		var ok bool
		t, ok = env[f.Table]
		if !ok {
			fail("unknown table %q", f.Table)
		}
		if q == "" {
			q = f.Table
		}
	}
	r := rel{}
	for _, c := range t.Cols {
		r.cols = append(r.cols, col{Qual: q, Name: c})
	}
	r.rows = t.Rows
	return r
}

type rowEnv struct {
	cols        []col
	row         []prim.Value
	aliases     map[string]Expr // output aliases of the SELECT (nil: not visible)
	aliasFirst  bool
	resolving   map[string]bool // aliases being expanded (cycle guard)
	group       [][]prim.Value  // rows of the group when aggregating (nil otherwise)
	aggregating bool
	groupKeys   map[string]bool // ExprString of GROUP BY expressions
	inAgg       bool
	lookupFn    func(parts []string) (prim.Value, bool)
	opt         Options
}

func (e *rowEnv) sourceLookup(name string) (prim.Value, bool) {
	found := -1
	for i, c := range e.cols {
		if c.Name == name {
			if e.aggregating && !e.inAgg {
				illFormed("column %q is neither grouped nor aggregated", name)
			}
			if found >= 0 {
				fail("ambiguous column %q", name)
			}
			found = i
		}
	}
	if found < 0 {
		return nil, false
	}
	return e.row[found], true
}

func (e *rowEnv) aliasLookup(name string) (prim.Value, bool) {
	if e.aliases == nil {
		return nil, false
	}
	x, ok := e.aliases[name]
	if !ok || e.resolving[name] {
		return nil, false
	}
	sub := *e
	sub.resolving = map[string]bool{name: true}
	for k := range e.resolving {
		sub.resolving[k] = true
	}
	// inside the alias's own expression names mean source columns
	sub.aliases = nil
	return evalExpr(x, &sub), true
}

func (e *rowEnv) lookup(parts []string) prim.Value {
	if e.lookupFn != nil {
		if v, ok := e.lookupFn(parts); ok {
			return v
		}
		fail("unknown column %q", strings.Join(parts, "."))
	}
	if len(parts) == 1 {
		name := parts[0]
		if e.aliasFirst {
			if v, ok := e.aliasLookup(name); ok {
				return v
			}
		}
		if v, ok := e.sourceLookup(name); ok {
			return v
		}
		if v, ok := e.aliasLookup(name); ok {
			return v
		}
		fail("unknown column %q", name)
	}
	if len(parts) == 2 {
		for i, c := range e.cols {
			if c.Qual == parts[0] && c.Name == parts[1] {
				if e.aggregating && !e.inAgg {
					illFormed("column %q.%q is neither grouped nor aggregated", parts[0], parts[1])
				}
				return e.row[i]
			}
		}
	}
	fail("unknown column %q", strings.Join(parts, "."))
	return nil
}

var aggNames = map[string]bool{"count": true, "sum": true, "min": true, "max": true}

// isAgg: aggregate functions are recognised in all-lower or all-upper case
// only; any other spelling (Count, Sum) is an ordinary, uninterpreted function.
func isAgg(c *Call) (string, bool) {
	name := strings.ToLower(c.Name)
	if aggNames[name] && (c.Name == name || c.Name == strings.ToUpper(name)) {
		return name, true
	}
	return "", false
}

func hasAgg(x Expr) bool {
	found := false
	Walk(x, func(e Expr) {
		if c, ok := e.(*Call); ok {
			if _, agg := isAgg(c); agg {
				found = true
			}
		}
	})
	return found
}

// Walk visits x and everything below it.
func Walk(x Expr, f func(Expr)) {
	if x == nil {
		return
	}
	f(x)
	switch x := x.(type) {
	case *Unary:
		Walk(x.X, f)
	case *Binary:
		Walk(x.X, f)
		Walk(x.Y, f)
	case *IsNull:
		Walk(x.X, f)
	case *InList:
		Walk(x.X, f)
		for _, y := range x.List {
			Walk(y, f)
		}
	case *Index:
		Walk(x.X, f)
		Walk(x.I, f)
	case *Call:
		for _, y := range x.Args {
			Walk(y, f)
		}
		if x.Filter != nil {
			Walk(x.Filter, f)
		}
	case *Case:
		for _, w := range x.Whens {
			Walk(w.C, f)
			Walk(w.T, f)
		}
		if x.Else != nil {
			Walk(x.Else, f)
		}
	}
}

// ExprString renders an expression canonically (fully parenthesised).
func ExprString(x Expr) string {
	switch x := x.(type) {
	case nil:
		return "nil"
	case *Lit:
		return prim.Show(x.V)
	case *ColRef:
		return "col(" + strings.Join(x.Parts, ".") + ")"
	case *Param:
		return "param(" + x.Text + ")"
	case *Unary:
		return "(" + x.Op + " " + ExprString(x.X) + ")"
	case *Binary:
		return "(" + ExprString(x.X) + " " + x.Op + " " + ExprString(x.Y) + ")"
	case *IsNull:
		if x.Not {
			return "(" + ExprString(x.X) + " IS NOT NULL)"
		}
		return "(" + ExprString(x.X) + " IS NULL)"
	case *InList:
		var a []string
		for _, y := range x.List {
			a = append(a, ExprString(y))
		}
		return "(" + ExprString(x.X) + " IN [" + strings.Join(a, ",") + "])"
	case *Index:
		return ExprString(x.X) + "[" + ExprString(x.I) + "]"
	case *Call:
		var a []string
		for _, y := range x.Args {
			a = append(a, ExprString(y))
		}
		s := x.Name + "(" + strings.Join(a, ",") + ")"
		if x.Star {
			s = x.Name + "(*)"
		}
		if x.Filter != nil {
			s += " FILTER " + ExprString(x.Filter)
		}
		return s
	case *Case:
		s := "CASE"
		for _, w := range x.Whens {
			s += " WHEN " + ExprString(w.C) + " THEN " + ExprString(w.T)
		}
		if x.Else != nil {
			s += " ELSE " + ExprString(x.Else)
		}
		return s + " END"
	}
	return fmt.Sprintf("?%T", x)
}

func evalExpr(x Expr, e *rowEnv) prim.Value {
	if e.aggregating && !e.inAgg && e.groupKeys[ExprString(x)] {
		// a grouped expression: evaluate on the group's representative row
		sub := *e
		sub.aggregating = false
		return evalExpr(x, &sub)
	}
	switch x := x.(type) {
	case *Lit:
		return x.V
	case *Param:
		v, ok := e.opt.Params[x.Text]
		if !ok {
			fail("unbound placeholder %s", x.Text)
		}
		return v
	case *ColRef:
		return e.lookup(x.Parts)
	case *Unary:
		v := evalExpr(x.X, e)
		switch x.Op {
		case "NOT":
			return prim.Not(v)
		case "-":
			return prim.Neg(v)
		default:
			return prim.Pos(v)
		}
	case *Binary:
		return prim.BinOp(x.Op, evalExpr(x.X, e), evalExpr(x.Y, e))
	case *IsNull:
		v := prim.IsNull(evalExpr(x.X, e))
		if x.Not {
			return prim.Not(v)
		}
		return v
	case *InList:
		v := evalExpr(x.X, e)
		var list []prim.Value
		for _, y := range x.List {
			list = append(list, evalExpr(y, e))
		}
		return prim.InOp(v, list)
	case *Index:
		return prim.Index(evalExpr(x.X, e), evalExpr(x.I, e))
	case *Case:
		for _, w := range x.Whens {
			c := evalExpr(w.C, e)
			if prim.IsPoison(c) {
				return c
			}
			if prim.IsTrue(c) {
				return evalExpr(w.T, e)
			}
		}
		if x.Else != nil {
			return evalExpr(x.Else, e)
		}
		return nil
	case *Call:
		if name, agg := isAgg(x); agg {
			return evalAgg(name, x, e)
		}
		var args []prim.Value
		for _, a := range x.Args {
			args = append(args, evalExpr(a, e))
		}
		if x.Filter != nil {
			fail("FILTER on non-aggregate %s", x.Name)
		}
		// the function-call spellings of operators and the few scalar functions
		// pql's rewrites may legitimately use
		switch x.Name {
		case "coalesce", "ifNull", "COALESCE":
			return prim.Coalesce(args...)
		case "lower", "LOWER", "lowerUTF8":
			if len(args) == 1 {
				return prim.Lower(args[0])
			}
		case "upper", "UPPER", "upperUTF8":
			if len(args) == 1 {
				return prim.Upper(args[0])
			}
		case "now", "NOW":
			if len(args) == 0 {
				return prim.Call("now", nil)
			}
		case "not":
			if len(args) == 1 {
				return prim.Not(args[0])
			}
		case "isNull":
			if len(args) == 1 {
				return prim.IsNull(args[0])
			}
		case "isNotNull":
			if len(args) == 1 {
				return prim.Not(prim.IsNull(args[0]))
			}
		case "if":
			if len(args) == 3 {
				return prim.If(args[0], args[1], args[2])
			}
		case "concat":
			if len(args) >= 1 {
				v := args[0]
				for _, a := range args[1:] {
					v = prim.BinOp("||", v, a)
				}
				return v
			}
		case "plus", "minus", "multiply", "divide", "modulo", "equals", "notEquals", "less", "greater", "lessOrEquals", "greaterOrEquals", "and", "or":
			if len(args) == 2 {
				op := map[string]string{"plus": "+", "minus": "-", "multiply": "*", "divide": "/", "modulo": "%", "equals": "=", "notEquals": "<>",
					"less": "<", "greater": ">", "lessOrEquals": "<=", "greaterOrEquals": ">=", "and": "AND", "or": "OR"}[x.Name]
				return prim.BinOp(op, args[0], args[1])
			}
		case "negate":
			if len(args) == 1 {
				return prim.Neg(args[0])
			}
		case "arrayElement":
			if len(args) == 2 {
				return prim.Index(args[0], args[1])
			}
		}
		return prim.Call(x.Name, args)
	}
	fail("cannot evaluate %T", x)
	return nil
}

func evalAgg(name string, c *Call, e *rowEnv) prim.Value {
	if e.group == nil || e.inAgg {
		fail("aggregate %s outside aggregation", name)
	}
	var vals []prim.Value
	n := int64(0)
	for _, r := range e.group {
		sub := &rowEnv{cols: e.cols, row: r, opt: e.opt, inAgg: true, lookupFn: e.lookupFn}
		if c.Filter != nil {
			f := evalExpr(c.Filter, sub)
			if prim.IsPoison(f) {
				return f
			}
			if !prim.IsTrue(f) {
				continue
			}
		}
		if len(c.Args) == 0 || c.Star {
			n++
			continue
		}
		v := evalExpr(c.Args[0], sub)
		if prim.IsPoison(v) {
			return v
		}
		if v != nil {
			n++
			vals = append(vals, v)
		}
	}
	switch name {
	case "count":
		return n
	case "sum":
		if len(vals) == 0 {
			return nil
		}
		var acc prim.Value = int64(0)
		for _, v := range vals {
			acc = prim.BinOp("+", acc, v)
		}
		return acc
	case "min", "max":
		if len(vals) == 0 {
			return nil
		}
		best := vals[0]
		for _, v := range vals[1:] {
			c, _ := prim.Cmp(v, best)
			if name == "min" && c < 0 || name == "max" && c > 0 {
				best = v
			}
		}
		return best
	}
	fail("aggregate %s unsupported", name)
	return nil
}

func evalSelect(s *Select, env map[string]*Table, opt Options) *Table {
	src := evalFactor(s.From, env, opt)
	for _, j := range s.Joins {
		right := evalFactor(j.F, env, opt)
		out := rel{cols: append(append([]col{}, src.cols...), right.cols...)}
		for _, l := range src.rows {
			matched := false
			for _, r := range right.rows {
				row := append(append([]prim.Value{}, l...), r...)
				e := &rowEnv{cols: out.cols, row: row, opt: opt}
				on := evalExpr(j.On, e)
				if prim.IsPoison(on) {
					fail("poison: join condition is a don't-care value")
				}
				if prim.IsTrue(on) {
					out.rows = append(out.rows, row)
					matched = true
				}
			}
			if !matched && j.Left {
				row := append(append([]prim.Value{}, l...), make([]prim.Value, len(right.cols))...)
				out.rows = append(out.rows, row)
			}
		}
		src = out
	}
	// output aliases, visible to WHERE / GROUP BY / ORDER BY
	aliases := map[string]Expr{}
	for _, it := range s.Items {
		if !it.Star && it.Alias != "" {
			if _, dup := aliases[it.Alias]; !dup {
				aliases[it.Alias] = it.E
			}
		}
	}
	aggregating := len(s.GroupBy) > 0
	for _, it := range s.Items {
		if !it.Star && hasAgg(it.E) {
			aggregating = true
		}
	}
	rows := src.rows
	if s.Where != nil {
		var kept [][]prim.Value
		for _, r := range rows {
			// aliases that are aggregates cannot be used in WHERE; only offer
			// non-aggregate ones
			wa := map[string]Expr{}
			for k, x := range aliases {
				if !hasAgg(x) {
					wa[k] = x
				}
			}
			v := evalExpr(s.Where, &rowEnv{cols: src.cols, row: r, opt: opt, aliases: wa, aliasFirst: !opt.SourceFirst})
			if prim.IsPoison(v) {
				fail("poison: WHERE predicate is a don't-care value")
			}
			if prim.IsTrue(v) {
				kept = append(kept, r)
			}
		}
		rows = kept
	}
	var outCols []string
	for _, it := range s.Items {
		if it.Star {
			for _, c := range src.cols {
				outCols = append(outCols, c.Name)
			}
		} else if it.Alias != "" {
			outCols = append(outCols, it.Alias)
		} else {
			outCols = append(outCols, "?"+ExprString(it.E))
		}
	}
	type outRow struct {
		vals []prim.Value
		env  *rowEnv
	}
	var outs []outRow
	project := func(e *rowEnv) []prim.Value {
		var vals []prim.Value
		for _, it := range s.Items {
			if it.Star {
				if aggregating {
					illFormed("* in an aggregating SELECT")
				}
				vals = append(vals, e.row...)
			} else {
				vals = append(vals, evalExpr(it.E, e))
			}
		}
		return vals
	}
	if aggregating {
		groupKeys := map[string]bool{}
		nonAggAliases := map[string]Expr{}
		for k, x := range aliases {
			if !hasAgg(x) {
				nonAggAliases[k] = x
			}
		}
		type grp struct{ rows [][]prim.Value }
		var order []string
		groups := map[string]*grp{}
		if len(s.GroupBy) == 0 {
			order = append(order, "")
			groups[""] = &grp{rows: rows}
		} else {
			for _, g := range s.GroupBy {
				groupKeys[ExprString(g)] = true
			}
			for _, r := range rows {
				e := &rowEnv{cols: src.cols, row: r, opt: opt, aliases: nonAggAliases, aliasFirst: !opt.SourceFirst}
				var k []prim.Value
				for _, g := range s.GroupBy {
					k = append(k, evalExpr(g, e))
				}
				ks := prim.Key(k)
				if _, ok := groups[ks]; !ok {
					groups[ks] = &grp{}
					order = append(order, ks)
				}
				groups[ks].rows = append(groups[ks].rows, r)
			}
		}
		for _, ks := range order {
			g := groups[ks]
			rep := make([]prim.Value, len(src.cols))
			if len(g.rows) > 0 {
				rep = g.rows[0]
			}
			grows := g.rows
			if grows == nil {
				grows = [][]prim.Value{}
			}
			e := &rowEnv{cols: src.cols, row: rep, group: grows, opt: opt, aggregating: true, groupKeys: groupKeys}
			outs = append(outs, outRow{vals: project(e), env: e})
		}
	} else {
		for _, r := range rows {
			e := &rowEnv{cols: src.cols, row: r, opt: opt}
			outs = append(outs, outRow{vals: project(e), env: e})
		}
	}
	if s.Distinct {
		seen := map[string]bool{}
		var d []outRow
		for _, o := range outs {
			k := prim.Key(o.vals)
			if !seen[k] {
				seen[k] = true
				d = append(d, o)
			}
		}
		outs = d
	}
	if len(s.OrderBy) > 0 {
		keys := make([][]prim.Value, len(outs))
		for i, o := range outs {
			e := *o.env
			e.aliases = aliases
			e.aliasFirst = !opt.SourceFirst
			for _, t := range s.OrderBy {
				k := evalExpr(t.E, &e)
				if prim.IsPoison(k) {
					fail("poison: ORDER BY key is a don't-care value")
				}
				keys[i] = append(keys[i], k)
			}
		}
		idx := make([]int, len(outs))
		for i := range idx {
			idx[i] = i
		}
		sort.SliceStable(idx, func(a, b int) bool {
			for ti, t := range s.OrderBy {
				x, y := keys[idx[a]][ti], keys[idx[b]][ti]
				nf := t.NullsFirst
				if !t.NullsSet {
					nf = false // ClickHouse default: NULLS LAST in both directions
				}
				if x == nil || y == nil {
					if x == nil && y == nil {
						continue
					}
					if x == nil {
						return nf
					}
					return !nf
				}
				c, _ := prim.Cmp(x, y)
				if c == 0 {
					continue
				}
				if t.Desc {
					return c > 0
				}
				return c < 0
			}
			return false
		})
		sorted := make([]outRow, len(outs))
		for i, j := range idx {
			sorted[i] = outs[j]
		}
		outs = sorted
	}
	if s.Limit != nil {
		v := evalExpr(s.Limit, &rowEnv{opt: opt})
		n, ok := v.(int64)
		if prim.IsHugeCount(v) {
			n, ok = int64(len(outs)), true
		}
		if !ok || n < 0 {
			fail("LIMIT is not a non-negative integer: %s", prim.Show(v))
		}
		if int(n) < len(outs) {
			outs = outs[:n]
		}
	}
	res := &Table{Cols: outCols}
	for _, o := range outs {
		res.Rows = append(res.Rows, o.vals)
	}
	return res
}

// EvalScalar evaluates a scalar expression over one row; cols may be
// qualified as "qual.name".
func EvalScalar(x Expr, cols []string, row []prim.Value, params map[string]prim.Value) (v prim.Value, err error) {
	defer func() {
		if r := recover(); r != nil {
			if ee, ok := r.(*EvalError); ok {
				err = ee
				return
			}
			panic(r)
		}
	}()
	var cs []col
	for _, c := range cols {
		if i := strings.IndexByte(c, '\x00'); i >= 0 {
			cs = append(cs, col{Qual: c[:i], Name: c[i+1:]})
		} else {
			cs = append(cs, col{Name: c})
		}
	}
	return evalExpr(x, &rowEnv{cols: cs, row: row, opt: Options{Params: params}}), nil
}

// EvalScalarFn evaluates a scalar expression whose column references are
// resolved by lookup (all parts of the reference are passed). Aggregates see a
// group consisting of this single row, so an expression taken from a
// summarize position can be evaluated row-wise.
func EvalScalarFn(x Expr, lookup func(parts []string) (prim.Value, bool), params map[string]prim.Value) (v prim.Value, err error) {
	defer func() {
		if r := recover(); r != nil {
			if ee, ok := r.(*EvalError); ok {
				err = ee
				return
			}
			panic(r)
		}
	}()
	e := &rowEnv{lookupFn: lookup, opt: Options{Params: params}, group: [][]prim.Value{nil}}
	return evalExpr(x, e), nil
}

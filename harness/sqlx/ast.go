// Package sqlx is the harness's independent SQL front end: a lexer with
// standard and ClickHouse quoting rules, a parser for the statement shape
// `[WITH name AS (select), ...] select ;` with ClickHouse's operator
// precedence, and an evaluator over in-memory tables with list semantics.
// It shares nothing with the code under test.
package sqlx

import "verif/harness/prim"

type Expr interface{}

type (
	Lit struct {
		V    prim.Value
		Text string // source text of numeric literals
	}
	ColRef struct{ Parts []string }
	Param  struct{ Text string }
	Unary  struct {
		Op string // "-", "+", "NOT"
		X  Expr
	}
	Binary struct {
		Op   string // OR AND = <> < <= > >= || + - * / %
		X, Y Expr
	}
	IsNull struct {
		X   Expr
		Not bool
	}
	InList struct {
		X    Expr
		List []Expr
	}
	Index struct{ X, I Expr }
	Call  struct {
		Name   string
		Args   []Expr
		Filter Expr // FILTER (WHERE e)
		Star   bool // f(*)
	}
	Case struct {
		Whens []struct{ C, T Expr }
		Else  Expr
	}
)

type Item struct {
	Star  bool
	E     Expr
	Alias string
	HasAs bool
}

type OrderTerm struct {
	E          Expr
	Desc       bool
	NullsFirst bool
	NullsSet   bool
}

type Factor struct {
	Table string  // qid
	Sub   *Select // or subquery
	Alias string
}

type Join struct {
	Left bool
	F    Factor
	On   Expr
}

type Select struct {
	Distinct bool
	Items    []Item
	From     Factor
	Joins    []Join
	Where    Expr
	GroupBy  []Expr
	OrderBy  []OrderTerm
	Limit    Expr
}

type CTE struct {
	Name string
	Sel  *Select
}

type Stmt struct {
	CTEs []CTE
	Sel  *Select
}

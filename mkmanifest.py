#!/usr/bin/env python3
"""Regenerates /verif/MANIFEST.json from the table below (run after editing)."""
import json

ENV = "GOFLAGS=-mod=mod GOPROXY=off GOSUMDB=off GOTOOLCHAIN=local"

# id -> (technique, level text, level note, design ref)
CHECKS = {
    "C09": (
        "bounded-exhaustive enumeration + rapid random strings, differential against a reference tokenizer",
        "Every string of length <= 4 (quick) / <= 5 (thorough) over a 27-symbol alphabet that contains a representative of every "
        "character class and scanner state is scanned and compared token by token (kind, span, value, exact numeric value) with an "
        "independently written reference tokenizer, plus partition laws, re-scan idempotence and numeric accessors; rapid-generated "
        "strings up to 64 bytes from lexeme fragments and arbitrary bytes extend this beyond the alphabet. Complete for the stated "
        "bound, sampled beyond it; right level because the scanner's state is tiny (one rune of look-ahead) so short strings reach "
        "every state/neighbour pair.",
        "Trusted: the reference tokenizer as a transcription of the C09 statement; unicode.IsSpace; Go's big.Rat.",
        "DESIGN.md §2 C09",
    ),
}

NOT_APPLICABLE = [
]
for _i in range(1, 17):
    _pid = "C%02d" % _i
    if _pid not in CHECKS:
        NOT_APPLICABLE.append({"property_id": _pid, "reason": "not claimed yet: its check is designed (DESIGN.md section 2) but not built and validated in this tree so far"})


def main():
    checks = []
    for pid in sorted(CHECKS):
        tech, text, note, ref = CHECKS[pid]
        checks.append({
            "property_id": pid,
            "quick_cmd": f"./check {pid} quick",
            "thorough_cmd": f"./check {pid} thorough",
            "evidence_file": f"/verif/evidence/{pid}.json",
            "replay_cmd_template": f"./check {pid} --replay {{path}}",
            "engine": "vdriver",
            "level_claimed": {"category": "exploration", "text": text, "design_ref": ref},
            "level_note": note,
            "technique": tech,
        })
    m = {
        "version": 1,
        "setup_cmd": f"cd /verif/harness && {ENV} go build -o /verif/.work/bin/vdriver ./cmd/vdriver && {ENV} go vet ./harn ./reftok >/dev/null 2>&1; {ENV} go test -c -vet=off -o /dev/null ./props",
        "hooks": {
            "guard": "verif",
            "enable": "no hooks: every observation point is a public API result (Scan, Parse, Walk, Compile, the built cmd/pql binary); the harness links /repo through a replace directive and rebuilds on every run",
            "baseline_off_cmd": "cd /repo && go test -vet=off -count=1 ./...",
            "source_commits": [],
            "add_only": True,
        },
        "engines": [{
            "name": "vdriver",
            "path": "/verif/harness/cmd/vdriver",
            "serves_properties": sorted(CHECKS),
            "kind_free_text": "Go driver: rebuilds harness/props (rapid v1.3.0 property tests, bounded-exhaustive enumerations, native fuzz targets) against /repo, "
                              "runs saved replays, known findings and sharded generated stages, merges statistics into evidence",
        }],
        "checks": checks,
        "notes": "All checks: exit 0 held / 1 VIOLATION line / 2 inconclusive (infrastructure, timeout). VERIF_SEED selects the PRNG streams "
                 "(0 is remapped to 1). Findings policy and the list of repaired defects: known_findings.txt, DESIGN.md §3.",
        "not_applicable": NOT_APPLICABLE,
    }
    with open("/verif/MANIFEST.json", "w") as f:
        json.dump(m, f, indent=1)
        f.write("\n")


if __name__ == "__main__":
    main()

#!/usr/bin/env python3
"""Regenerates /verif/MANIFEST.json from the table below (run after editing)."""
import json

ENV = "GOFLAGS=-mod=mod GOPROXY=off GOSUMDB=off GOTOOLCHAIN=local"

# id -> (technique, level text, level note, design ref)
CHECKS = {
    "C09": (
        "bounded-exhaustive enumeration + rapid random strings, differential against a reference tokenizer",
        "Every string of length <= 4 (quick) / <= 5 (thorough) over a 27-symbol alphabet that contains a representative of every "
        "character class and scanner state is scanned and compared token by token (kind, span, value, exact numeric value) with an "
        "independently written reference tokenizer, plus partition laws, re-scan idempotence and numeric accessors; rapid-generated "
        "strings up to 64 bytes from lexeme fragments and arbitrary bytes extend this beyond the alphabet. Complete for the stated "
        "bound, sampled beyond it; right level because the scanner's state is tiny (one rune of look-ahead) so short strings reach "
        "every state/neighbour pair.",
        "Trusted: the reference tokenizer as a transcription of the C09 statement; unicode.IsSpace; Go's big.Rat.",
        "DESIGN.md §2 C09",
    ),
    "C01": (
        "bounded-exhaustive expression trees + rapid grammar-directed generation, differential: independent SQL reader (ClickHouse precedence) vs reference PQL evaluation over enumerated rows",
        "All trees with <= 3 operator nodes over 27 constructors (with needed and with full parenthesisation) and rapid-generated trees to depth 5/8 in "
        "twelve expression positions are compiled; the SQL clause holding the translation is parsed with ClickHouse's precedence and evaluated on 25+ row "
        "valuations including NULLs, and must give the value the generator's tree has under PQL semantics. Compile runs under a CPU watchdog, so a "
        "parenthesis that stops it from terminating is a violation. Complete for the small trees, sampled for the rest.",
        "Trusted: harness/sqlx (lexer, precedence table, evaluator), harness/interp, harness/prim (shared value primitives).",
        "DESIGN.md §2 C01",
    ),
    "C02": (
        "bounded-exhaustive operator-kind sequences + rapid generation of well-typed pipelines and small databases, differential: SQL evaluator vs reference left-to-right interpreter",
        "Every sequence of the ten non-join operator kinds up to length 3 (thorough 4) with several well-typed argument and database draws, and random "
        "sequences up to length 8, are compiled, evaluated by the independent SQL evaluator under two name-resolution disciplines and compared (columns, "
        "rows, order where a sort determines it) with the reference interpreter.",
        "Trusted: harness/sqlx, harness/interp, harness/prim; list-order-preserving evaluation and stable ORDER BY as the execution model.",
        "DESIGN.md §2 C02",
    ),
    "C03": (
        "rapid generation of well-typed join programs and small databases, differential: SQL evaluator vs reference join semantics",
        "Programs with prefixes, all join kinds and condition forms, nested and chained joins, right-hand sides reading `as` names, over three tables with "
        "duplicates, unmatched rows and NULL keys, compared as multisets (or ordered when a later sort determines it) with the reference interpreter.",
        "Trusted: as C02.",
        "DESIGN.md §2 C03",
    ),
    "C04": (
        "rapid generation of skeletons and hostile fillings + native fuzzing, metamorphic relation (benign vs hostile filling) and decode round-trip under two SQL lexers",
        "Each skeleton is compiled with unique benign markers and with hostile contents in every literal/name hole; both outputs are lexed under standard "
        "and ClickHouse rules: same token kinds, identical non-hole tokens, and each hole token decodes (ClickHouse rules) to exactly the PQL value.",
        "Trusted: harness/sqlx lexer in both modes; the reference tokenizer for the PQL spelling of the fillings.",
        "DESIGN.md §2 C04",
    ),
    "C05": (
        "rapid grammar-directed generation + mutation + bounded-exhaustive token soups + native fuzzing, validity predicate by an independent SQL statement parser",
        "Every successful compilation of generated programs, compiled mutants, compiled soups and fuzz inputs must lex cleanly under two quoting rule sets, "
        "hold one trailing semicolon, balance brackets, parse as [WITH ...] select, read only source tables or earlier CTEs, define distinct CTE names and use every CTE.",
        "Trusted: harness/sqlx statement grammar (deliberately wider than pql's output).",
        "DESIGN.md §2 C05",
    ),
    "C06": (
        "rapid generation of parameter maps, let sequences and well-typed programs, differential (SQL evaluator with bound placeholders vs lexically scoped interpreter) plus metamorphic and textual relations",
        "Bindings of every value shape are used in every expression position including join conditions and row counts, with shadowing, chains and colliding "
        "non-uses; results must agree with lexical scoping, unused bindings must not change the SQL, and snippets must appear verbatim iff used.",
        "Trusted: as C02.",
        "DESIGN.md §2 C06",
    ),
    "C07": (
        "bounded-exhaustive operator sequences + rapid grammar-directed generation, differential against a reference parser / the generator's own tree",
        "All token sequences operand (op operand){1..3} (thorough ..4) over the sixteen binary operators and all sign patterns are parsed and "
        "compared with a reference precedence parser written from the property statement; rapid-generated deep expressions and whole programs "
        "(every operator, every optional part, lets, empty statements, nested joins) are printed in random layouts and keyword synonyms and must "
        "parse to the generator's tree (canonical form over exported fields, positions ignored). Complete for the short sequences, sampled for the rest.",
        "Trusted: reference expression parser and printer of harness/gen; canonical forms in harness/gen/canon.go and harness/astx/canon.go.",
        "DESIGN.md §2 C07",
    ),
    "C08": (
        "bounded-exhaustive token soups + rapid mutation of grammar programs + native fuzzing, round-trip oracle (re-print tree vs token stream)",
        "Every short token sequence over small alphabets in 8+13 contexts, tens of thousands of token/byte-level corruptions of generated programs and "
        "(thorough) a coverage-guided fuzz campaign are parsed; whenever Parse succeeds the tree is re-printed through exported fields and must give "
        "back Scan's token sequence up to the three absences the property allows. Complete for the stated bounds, sampled beyond.",
        "Trusted: the re-printer harness/astx/reprint.go; parser.Scan as the token stream (checked separately by C09).",
        "DESIGN.md §2 C08",
    ),
    "C10": (
        "rapid grammar-directed generation in random layouts + mutation + bounded-exhaustive token soups + native fuzzing, span laws as validity predicates",
        "Every recorded span of every successfully parsed input must re-scan to the lexeme it claims, lie on token boundaries, tile the token stream "
        "exactly once together with the others, and every Span() must equal the reflective union of what lies below; failed parses must only report "
        "in-range spans and line:column prefixes that exist in the source. Sampled (programs, mutants, fuzz) plus complete short soups.",
        "Trusted: reflection over exported fields; the span-field meaning table in c10_test.go; own line/column function with tab stops of 8.",
        "DESIGN.md §2 C10",
    ),
    "C11": (
        "rapid grammar-directed generation + bounded-exhaustive token soups, reflective reference model of the node graph",
        "parser.Walk is compared with the node graph enumerated by reflection: exactly-once visits of all identifiers and expressions, no nil, "
        "parents first, exact pruning semantics for rapid-drawn prune sets, for whole statements and for every expression subtree.",
        "Trusted: reflection over exported fields defines the node set.",
        "DESIGN.md §2 C11",
    ),
    "C12": (
        "rapid generation of hostile inputs + bounded-exhaustive token soups + native fuzzing, executed in a watchdog-supervised worker process",
        "Random bytes, token soups, grammar programs and their corruptions, nesting and error-cascade templates scaled to 4 KiB, with arbitrary parameter "
        "maps, are run through Scan, SplitStatements, Parse, Walk and Compile in a subprocess; panic, worker death or 60 CPU-seconds on one case is a violation.",
        "Trusted: /proc CPU accounting; the budget (slowest legitimate case measured ~8 s wall for six calls). A finite path slower than the budget would be misreported, a hang-free but slow path just under it is missed.",
        "DESIGN.md §2 C12",
    ),
    "C13": (
        "rapid generation of rule-abiding programs with one planted rule violation + random strings + bounded-exhaustive token soups + native fuzzing, paired oracle (twin must compile, planted must fail)",
        "Every documented rule is planted at a rapid-chosen expression slot of any depth into a program that is first shown to compile; all strings must "
        "satisfy the SQL-xor-error contract.",
        "Trusted: the slot enumeration of c13_test.go (render property values are not slots).",
        "DESIGN.md §2 C13",
    ),
    "C14": (
        "rapid stateful generation of call histories, model = memo of isolated results; concurrent execution in fresh race-detector child processes",
        "Histories mixing all option kinds, Parse and Scan run sequentially (model) and concurrently from 2-16 goroutines in a fresh -race child whose first "
        "action they are; results must equal the memo, the shared parameter map must be unchanged and the race detector silent. Schedules are sampled, not enumerated.",
        "Trusted: the Go race detector; a fresh process per history for first-use coverage.",
        "DESIGN.md §2 C14",
    ),
    "C15": (
        "bounded-exhaustive enumeration + rapid random concatenations, algebraic laws (join/split round trip, piece-vs-context token equality)",
        "All strings of length <= 4 (thorough 5) over the 27-symbol alphabet and random concatenations of statement fragments: pieces join back to the "
        "source, cut exactly at semicolon tokens, re-scan to their context tokens, and parse to the statement they were in context.",
        "Trusted: reflective tree comparison with span shift.",
        "DESIGN.md §2 C15",
    ),
    "C16": (
        "rapid stateful generation of scripts (statement sequences x layouts x transports), model-based: fold of the statement list with the library's Compile",
        "The built cmd/pql binary is run on generated scripts over stdin, one file, several files cut anywhere and -o; stdout must equal the model's fold, "
        "exit status and stderr must reflect failures, toggling the final semicolon must change nothing, over-long lines must not be dropped silently.",
        "Trusted: pql.Compile as the per-statement oracle (the property is about the tool's bookkeeping, not about Compile).",
        "DESIGN.md §2 C16",
    ),
}

NOT_APPLICABLE = [
]
for _i in range(1, 17):
    _pid = "C%02d" % _i
    if _pid not in CHECKS:
        NOT_APPLICABLE.append({"property_id": _pid, "reason": "not claimed yet: its check is designed (DESIGN.md section 2) but not built and validated in this tree so far"})


def main():
    checks = []
    for pid in sorted(CHECKS):
        tech, text, note, ref = CHECKS[pid]
        checks.append({
            "property_id": pid,
            "quick_cmd": f"./check {pid} quick",
            "thorough_cmd": f"./check {pid} thorough",
            "evidence_file": f"/verif/evidence/{pid}.json",
            "replay_cmd_template": f"./check {pid} --replay {{path}}",
            "engine": "vdriver",
            "level_claimed": {"category": "exploration", "text": text, "design_ref": ref},
            "level_note": note,
            "technique": tech,
        })
    m = {
        "version": 1,
        "setup_cmd": f"cd /verif/harness && {ENV} go build -o /verif/.work/bin/vdriver ./cmd/vdriver && {ENV} go vet ./harn ./reftok >/dev/null 2>&1; {ENV} go test -c -vet=off -o /dev/null ./props",
        "hooks": {
            "guard": "verif",
            "enable": "no hooks: every observation point is a public API result (Scan, Parse, Walk, Compile, the built cmd/pql binary); the harness links /repo through a replace directive and rebuilds on every run",
            "baseline_off_cmd": "cd /repo && go test -vet=off -count=1 ./...",
            "source_commits": [],
            "add_only": True,
        },
        "engines": [{
            "name": "vdriver",
            "path": "/verif/harness/cmd/vdriver",
            "serves_properties": sorted(CHECKS),
            "kind_free_text": "Go driver: rebuilds harness/props (rapid v1.3.0 property tests, bounded-exhaustive enumerations, native fuzz targets) against /repo, "
                              "runs saved replays, known findings and sharded generated stages, merges statistics into evidence",
        }],
        "checks": checks,
        "notes": "All checks: exit 0 held / 1 VIOLATION line / 2 inconclusive (infrastructure, timeout). VERIF_SEED selects the PRNG streams "
                 "(0 is remapped to 1). Findings policy and the list of repaired defects: known_findings.txt, DESIGN.md §3.",
        "not_applicable": NOT_APPLICABLE,
    }
    with open("/verif/MANIFEST.json", "w") as f:
        json.dump(m, f, indent=1)
        f.write("\n")


if __name__ == "__main__":
    main()
